"""Collections of (x, y) series whose level ranges overlap by construction.

Each series is a list of lattice ordinates (multiples of 1/8) on a uniform
abscissa; a new series is built to cross a grid level that an earlier
series of its group crosses, so the overlap graph of a group is connected
without filtering.  Model-side helpers (exact crossings, components) live
here too and never import spowtd.
"""

from fractions import Fraction as F

from hypothesis import strategies as st

from vfw import model_crossings as mc

STEPS = [1.0, 0.5, 2.0, 0.25]


def levels_of(series, h):
    return sorted(mc.mean_crossings(series['x'], series['y'], h))


@st.composite
def one_series(draw, h, must_cross=None, band=(-60.0, 60.0), shape=None):
    """A (mostly) falling series; crosses level must_cross (an integer
    index of h) if given."""
    units_per_level = int(round(h * 8))
    n = draw(st.integers(2, 10))
    shape = shape or draw(st.sampled_from(
        ['falling', 'falling', 'falling', 'bumpy', 'rising']))
    steps = []
    for _ in range(n - 1):
        if shape == 'falling':
            steps.append(-draw(st.integers(1, 3 * units_per_level + 4)))
        elif shape == 'rising':
            steps.append(draw(st.integers(1, 3 * units_per_level + 4)))
        else:
            steps.append(draw(st.integers(-3 * units_per_level - 4,
                                          units_per_level + 2)))
    if must_cross is None:
        top = draw(st.integers(int(band[0] * 8), int(band[1] * 8)))
        y = [top]
        for d in steps:
            y.append(y[-1] + d)
    else:
        target = must_cross * units_per_level  # lattice units
        # place the target inside one pair: the pair index is drawn, the
        # series is anchored so that pair straddles the target level
        pair = draw(st.integers(0, n - 2))
        y = [0]
        for d in steps:
            y.append(y[-1] + d)
        lo, hi = sorted((y[pair], y[pair + 1]))
        if lo == hi:
            y[pair + 1] -= units_per_level + 1
            for k in range(pair + 2, n):
                y[k] -= units_per_level + 1
            lo, hi = sorted((y[pair], y[pair + 1]))
        # want lo <= target < hi after the shift
        offset_in = draw(st.integers(0, hi - lo - 1))
        shift = target - (lo + offset_in)
        y = [v + shift for v in y]
    dt = draw(st.sampled_from([600, 900, 1200, 3600]))
    x0 = draw(st.sampled_from([0, 1400000000, 1388534400 + 600 * 7, 86400]))
    x = [float(x0 + k * dt) for k in range(n)]
    return {'x': x, 'y': [v / 8.0 for v in y]}


@st.composite
def connected_group(draw, h, n_series, band=(-60.0, 60.0), shape=None):
    group = [draw(one_series(h, band=band, shape=shape))]
    guard = 0
    while not levels_of(group[0], h) and guard < 5:
        group[0] = draw(one_series(h, band=band, shape=shape))
        guard += 1
    if not levels_of(group[0], h):
        group[0] = {'x': [0.0, 600.0], 'y': [band[0] + 3 * h + 0.125,
                                             band[0] - 0.125]}
    for _ in range(n_series - 1):
        parent = group[draw(st.integers(0, len(group) - 1))]
        lv = levels_of(parent, h) or levels_of(group[0], h)
        k = draw(st.sampled_from(lv))
        group.append(draw(one_series(h, must_cross=k, shape=shape)))
    return group


def crossing_table(collection, h):
    """{level: {series index: mean crossing (float)}} from the exact
    model."""
    table = {}
    for i, s in enumerate(collection):
        for k, xm in mc.mean_crossings(
                [F(v) - F(s['x'][0]) for v in s['x']], s['y'], h).items():
            table.setdefault(k, {})[i] = float(xm)
    return table


def components(table):
    """Connected components of series (linked by a shared level), each as
    (set of series, set of levels); model side."""
    parent = {}

    def find(a):
        while parent.setdefault(a, a) != a:
            parent[a] = parent[parent[a]]
            a = parent[a]
        return a

    for level, row in table.items():
        ids = list(row)
        for other in ids[1:]:
            parent[find(other)] = find(ids[0])
        find(ids[0])
    comps = {}
    for level, row in table.items():
        root = find(next(iter(row)))
        c = comps.setdefault(root, (set(), set()))
        c[0].update(row)
        c[1].add(level)
    return list(comps.values())
