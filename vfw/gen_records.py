"""Record generators on the exact dyadic lattice (DESIGN 3.1, 3.2).

Water levels are multiples of 1/8 mm, intensities multiples of 1/64 mm/h,
steps come from a fixed list, the jump threshold is chosen so that
threshold*step is a lattice value.  Everything is constructed; nothing is
filtered.
"""

from hypothesis import strategies as st

# incl. daily data, and loggers whose step is not a whole number of minutes
# or not a divisor of the hour (step/3600*3600 is then not the step again in
# double arithmetic: 115, 229)
STEPS = [600, 900, 1200, 1800, 2400, 3600, 7200, 86400, 90, 115, 229, 300]
ZONES = ['UTC', 'UTC', 'Etc/GMT-7', 'Etc/GMT+5', 'Africa/Lagos',
         'Asia/Kolkata', 'Etc/GMT-12']
# data zones whose clocks change, with the UTC epoch of a spring transition
# (an hour of local time is skipped: every instant still has its own text;
# the autumn transition, where two instants share one text that the input
# format cannot tell apart, is months away from any generated record)
DST_ZONES = [('Europe/Berlin', 1396141200), ('America/New_York', 1394348400),
             ('Australia/Lord_Howe', 1412436600)]
T0_BASE = 1388534400  # 2014-01-01 00:00:00 UTC, a multiple of 7200


def thresholds(draw, dt):
    """(s, j, thr_units): thr_units/8 mm is the exact jump increment
    threshold per step; j = thr*3600/dt is exactly representable."""
    s = draw(st.sampled_from([0.25, 1.0, 2.5, 4.0, 8.0]))
    thr_units = draw(st.sampled_from([1, 2, 3, 4, 6, 8, 12, 16]))
    j = (thr_units / 8.0) * 3600.0 / dt
    return s, j, thr_units


def rain_value(draw, klass, s):
    if klass == 'zero':
        return 0.0
    if klass == 'drizzle':
        n = draw(st.integers(1, int(s * 64)))
        return n / 64.0
    if klass == 'exact':
        return s
    if klass == 'hair':
        # strictly above the threshold by a hair (1e-6 relative, or one ulp)
        import math
        return draw(st.sampled_from(
            [s * (1 + 1e-6), s * (1 + 1e-9), math.nextafter(s, math.inf)]))
    return s + draw(st.integers(1, 640)) / 64.0


def inc_units(draw, klass, thr_units):
    if klass == 'fall':
        return -draw(st.integers(1, 6))
    if klass == 'flat':
        return 0
    if klass == 'small':
        return draw(st.integers(0, thr_units - 1)) if thr_units > 1 else 0
    if klass == 'exact':
        return thr_units
    return thr_units + draw(st.integers(1, 40))


def assemble(dt, t0, tz, rain, z_units, z_first, lead_rain, trail_rain,
             removed, et, s, j, extra=None):
    """Build the record case.

    rain: per-step intensities for indices 0..n-1
    z_units: water-level lattice values for sample indices
             z_first .. z_first+len-1 (sample k is at t0 + k*dt)
    lead_rain / trail_rain: extra rain rows before index 0 / after n-1
    removed: set of water-level sample indices dropped (gaps)
    """
    n = len(rain)
    rain_rows = (
        [[-(len(lead_rain) - i), v] for i, v in enumerate(lead_rain)]
        + [[i, v] for i, v in enumerate(rain)]
        + [[n + i, v] for i, v in enumerate(trail_rain)])
    wl = [[(z_first + k) * dt, u / 8.0]
          for k, u in enumerate(z_units) if (z_first + k) not in removed]
    fine_removed = (extra or {}).get('fine_removed')
    if fine_removed is not None:
        # the logger samples twice per rain step; a missing mid-step reading
        # is a gap that swallows no grid instant: the two sides are
        # different data intervals although adjacent on the grid
        # (fine_keep_mids: the logger is twice as dense as the rain grid
        # and skipped exactly the on-grid readings in `removed`; the
        # readings half a step either side are there, so the hole is no
        # longer than one rain step)
        keep = bool((extra or {}).get('fine_keep_mids'))
        mids = [[(z_first + k) * dt + dt // 2,
                 (z_units[k] + z_units[k + 1]) / 16.0]
                for k in range(len(z_units) - 1)
                if (z_first + k) not in fine_removed
                and (keep or ((z_first + k) not in removed
                              and (z_first + k + 1) not in removed))]
        wl = sorted(wl + mids)
    lo = min(rain_rows[0][0], z_first) - 1
    hi = max(rain_rows[-1][0], z_first + len(z_units)) + 2
    et_rows = [[i, et[(i - lo) % len(et)]] for i in range(lo, hi + 1)]
    case = {'dt': dt, 't0': t0, 'tz': tz, 'rain': rain_rows,
            'et': et_rows, 'wl': wl, 's': s, 'j': j}
    if extra:
        case.update(extra)
    return case


@st.composite
def header(draw):
    dt = draw(st.sampled_from(STEPS))
    tz = draw(st.sampled_from(ZONES))
    t0 = draw_t0(draw, dt)
    return dt, tz, t0


def draw_t0(draw, dt, span=40):
    """Epoch of rain index 0.  When the case's process time zone
    (vfw.ambient) changes its clocks, half of the records are laid across
    one of its transitions."""
    from vfw import ambient
    trans = ambient.TRANSITIONS.get(ambient.CURRENT.get('tz'))
    if trans and draw(st.booleans()):
        return draw(st.sampled_from(trans)) - draw(
            st.integers(-2, span)) * dt
    special = draw(st.integers(0, 9))
    if special == 0:
        # the record starts at, or runs across, epoch 0
        return -draw(st.sampled_from([0, 0, 0, 1, 2, 5, 17, span])) * dt
    if special == 1:
        # historical data: negative epochs (1 March 1965)
        return -152596800 + draw(st.integers(-100, 100)) * dt
    return T0_BASE + draw(st.integers(-2000, 200000)) * dt


@st.composite
def gaps_for(draw, first, count, max_gaps=3):
    """Indices of water-level samples removed: 0-3 runs."""
    removed = set()
    ngaps = draw(st.sampled_from([0, 0, 1, 1, 2, 3][:2 + 2 * max_gaps // 2]))
    for _ in range(ngaps):
        if count < 4:
            break
        start = first + draw(st.integers(1, count - 2))
        length = draw(st.sampled_from([1, 1, 2, 3, 5]))
        removed.update(range(start, min(start + length, first + count - 1)))
    return removed


@st.composite
def free_records(draw, max_steps=30, allow_gaps=True, min_steps=2):
    """G-free: independent per-step classes from small alphabets."""
    dt, tz, t0 = draw(header())
    s, j, thr_units = thresholds(draw, dt)
    n = draw(st.integers(min_steps, max_steps))
    rain_w = draw(st.sampled_from([
        ['zero', 'zero', 'drizzle', 'exact', 'heavy', 'heavy'],
        ['zero', 'zero', 'zero', 'zero', 'drizzle', 'heavy'],
        ['heavy', 'heavy', 'heavy', 'drizzle', 'zero', 'exact'],
        ['zero'], ['heavy']]))
    inc_w = draw(st.sampled_from([
        ['fall', 'fall', 'flat', 'small', 'exact', 'jump', 'jump'],
        ['fall', 'fall', 'fall', 'flat', 'small', 'jump'],
        ['jump', 'jump', 'jump', 'small', 'exact', 'fall'],
        ['fall', 'flat'], ['jump']]))
    rain = [rain_value(draw, draw(st.sampled_from(rain_w)), s)
            for _ in range(n)]
    # water-level samples cover indices z_first .. z_last
    z_first = draw(st.sampled_from([0, 0, 0, -2, -5, 1, 3]))
    z_last = n + draw(st.sampled_from([0, 0, 0, 1, 4, -1, -3]))
    if z_last - z_first < 2:
        z_first, z_last = 0, max(n, 2)
    count = z_last - z_first + 1
    z = [draw(st.integers(-400, 400))]
    for _ in range(count - 1):
        z.append(z[-1] + inc_units(
            draw, draw(st.sampled_from(inc_w)), thr_units))
    removed = draw(gaps_for(z_first, count)) if allow_gaps else set()
    fine = None
    if allow_gaps and draw(st.integers(0, 3)) == 0:
        removed = set()
        fine = sorted(set(draw(st.lists(
            st.integers(z_first, z_first + count - 2), min_size=1,
            max_size=3))))
    lead = [rain_value(draw, draw(st.sampled_from(rain_w)), s)
            for _ in range(draw(st.sampled_from([0, 0, 2])))]
    trail = [rain_value(draw, draw(st.sampled_from(rain_w)), s)
             for _ in range(draw(st.sampled_from([0, 0, 3])))]
    et = [draw(st.integers(0, 32)) / 64.0 for _ in range(5)]
    return assemble(dt, t0, tz, rain, z, z_first, lead, trail, removed,
                    et, s, j, {'gen': 'free', 'thr_units': thr_units,
                               'fine_removed': fine})


EVENTS = ['dry', 'dry', 'storm', 'storm', 'storm-late', 'storm-early',
          'two-bursts-one-rise', 'two-rises-one-burst', 'burst-no-response',
          'mystery-rise', 'drizzle-spell', 'storm-no-drizzle']


@st.composite
def scenario_records(draw, max_events=10, allow_gaps=True, min_events=2):
    """G-scenario: sequences of hydrologically shaped events.

    A realistic storm ends with a drizzle step: the sample that ends a
    jump must still be rainy, otherwise the rise counts as unexplained and
    the following recession is dropped (the stated semantics of C04)."""
    dt, tz, t0 = draw(header())
    s, j, thr_units = thresholds(draw, dt)
    rain, incs = [], []

    def heavy():
        return rain_value(draw, 'heavy', s)

    def drizzle():
        return rain_value(draw, 'drizzle', s)

    def jump():
        return inc_units(draw, 'jump', thr_units)

    def small():
        return inc_units(draw, draw(st.sampled_from(
            ['small', 'flat', 'fall', 'exact'])), thr_units)

    def recede():
        return inc_units(draw, draw(st.sampled_from(
            ['fall', 'fall', 'fall', 'flat'])), thr_units)

    events = draw(st.lists(st.sampled_from(EVENTS), min_size=min_events,
                           max_size=max_events))
    if draw(st.booleans()):
        events = ['dry'] + events  # most records start dry
    for ev in events:
        if ev == 'dry':
            for _ in range(draw(st.integers(2, 8))):
                rain.append(0.0)
                incs.append(recede())
        elif ev == 'drizzle-spell':
            for _ in range(draw(st.integers(1, 3))):
                rain.append(drizzle())
                incs.append(small())
        elif ev in ('storm', 'storm-no-drizzle'):
            for _ in range(draw(st.integers(1, 4))):
                rain.append(heavy())
                incs.append(jump())
            if ev == 'storm':
                rain.append(drizzle())
                incs.append(small())
        elif ev == 'storm-late':  # rise lags the burst by one step
            k = draw(st.integers(1, 3))
            rain.extend([heavy() for _ in range(k)] + [drizzle(), drizzle()])
            incs.extend([small()] + [jump() for _ in range(k)] + [small()])
        elif ev == 'storm-early':  # rise leads the burst by one step
            k = draw(st.integers(1, 3))
            rain.extend([drizzle()] + [heavy() for _ in range(k)]
                        + [drizzle()])
            incs.extend([jump() for _ in range(k)] + [small(), small()])
        elif ev == 'two-bursts-one-rise':
            rain.extend([heavy(), drizzle(), heavy(), drizzle()])
            incs.extend([jump(), jump(), jump(), small()])
        elif ev == 'two-rises-one-burst':
            rain.extend([heavy(), heavy(), heavy(), drizzle()])
            incs.extend([jump(), small(), jump(), small()])
        elif ev == 'burst-no-response':
            for _ in range(draw(st.integers(1, 2))):
                rain.append(heavy())
                incs.append(small())
        elif ev == 'mystery-rise':
            rain.extend([0.0, 0.0])
            incs.extend([jump(), recede()])
    n = len(rain)
    z = [draw(st.integers(-200, 200))]
    for inc in incs:
        z.append(z[-1] + inc)
    removed = draw(gaps_for(0, n + 1)) if allow_gaps else set()
    et = [draw(st.integers(0, 32)) / 64.0 for _ in range(5)]
    return assemble(dt, t0, tz, rain, z, 0, [], [], removed, et, s, j,
                    {'gen': 'scenario', 'thr_units': thr_units})


@st.composite
def float_records(draw, max_steps=30):
    """Off the lattice: arbitrary finite doubles for intensities, levels
    and thresholds (aligned sampling, optional gaps)."""
    dt, tz, t0 = draw(header())
    n = draw(st.integers(2, max_steps))
    s = draw(st.one_of(st.floats(1e-3, 30.0), st.sampled_from(
        [4.0, 8.0, 1e-6, 250.0])))
    j = draw(st.one_of(st.floats(1e-3, 60.0), st.sampled_from(
        [8.0, 5.0, 1e-6, 500.0])))
    # values a hair above / below a threshold (1e-6, 1e-9 relative, one ulp)
    import math
    hairs = [1 + 1e-6, 1 + 1e-9, 1 - 1e-6, 1 - 1e-9]
    near_s = [s * f for f in hairs] + [math.nextafter(s, math.inf),
                                       math.nextafter(s, 0.0)]
    rain = [draw(st.one_of(st.just(0.0), st.just(0.0),
                           st.floats(0.0, 3 * s + 1.0),
                           st.just(s), st.sampled_from(near_s)))
            for _ in range(n)]
    scale = j * dt / 3600.0
    near_j = [scale * f for f in hairs]
    z = [draw(st.floats(-500.0, 500.0))]
    for _ in range(n):
        z.append(z[-1] + draw(st.one_of(
            st.floats(-2 * scale, 3 * scale), st.just(0.0),
            st.just(scale), st.sampled_from(near_j),
            st.floats(-0.5, 0.0))))
    removed = draw(gaps_for(0, n + 1))
    wl = [[k * dt, v] for k, v in enumerate(z) if k not in removed]
    et = [[i, 0.125] for i in range(-2, n + 4)]
    return {'dt': dt, 't0': t0, 'tz': tz,
            'rain': [[i, v] for i, v in enumerate(rain)], 'et': et,
            'wl': wl, 's': s, 'j': j, 'gen': 'float'}


def records(max_steps=30, allow_gaps=True):
    return st.one_of(free_records(max_steps=max_steps, allow_gaps=allow_gaps),
                     scenario_records(allow_gaps=allow_gaps))
