"""Brute-force reference for the storm-rise matching (no spowtd import).

An instance is (edges, storm_pref, rise_pref):
  edges       set of (storm, rise) candidate pairs
  storm_pref  {(storm, rise): value}   higher is better for the storm
  rise_pref   {(rise, storm): value}   higher is better for the rise
A matching is a dict rise -> storm (as the code returns it).
"""

import itertools


def is_matching(match, edges):
    storms = list(match.values())
    if len(set(storms)) != len(storms):
        return 'storm-matched-twice'
    for rise, storm in match.items():
        if (storm, rise) not in edges:
            return 'match-not-a-candidate'
    return None


def blocking_pairs(match, edges, storm_pref, rise_pref):
    """Edges not in the matching whose storm is unmatched or strictly
    prefers the rise AND whose rise is unmatched or strictly prefers the
    storm."""
    partner_of_storm = {s: r for r, s in match.items()}
    out = []
    for storm, rise in edges:
        if match.get(rise) == storm:
            continue
        r_cur = partner_of_storm.get(storm)
        storm_wants = r_cur is None or (
            storm_pref[(storm, rise)] > storm_pref[(storm, r_cur)])
        s_cur = match.get(rise)
        rise_wants = s_cur is None or (
            rise_pref[(rise, storm)] > rise_pref[(rise, s_cur)])
        if storm_wants and rise_wants:
            out.append((storm, rise))
    return out


def all_matchings(edges):
    """Every one-to-one subset of edges, as dict rise -> storm."""
    edges = sorted(edges)
    storms = sorted({s for s, _ in edges})
    by_storm = {s: [r for s2, r in edges if s2 == s] for s in storms}

    def rec(i, used):
        if i == len(storms):
            yield {}
            return
        s = storms[i]
        for m in rec(i + 1, used):
            yield m
        for r in by_storm[s]:
            if r in used:
                continue
            for m in rec(i + 1, used | {r}):
                m = dict(m)
                m[r] = s
                yield m

    return rec(0, frozenset())


def stable_matchings(edges, storm_pref, rise_pref):
    return [m for m in all_matchings(edges)
            if not blocking_pairs(m, edges, storm_pref, rise_pref)]


def has_ties(edges, storm_pref, rise_pref):
    by_s, by_r = {}, {}
    for s, r in edges:
        by_s.setdefault(s, []).append(storm_pref[(s, r)])
        by_r.setdefault(r, []).append(rise_pref[(r, s)])
    return any(len(set(v)) != len(v) for v in by_s.values()) or any(
        len(set(v)) != len(v) for v in by_r.values())


def storm_optimal(edges, storm_pref, rise_pref):
    """The stable matching that is best for every storm simultaneously
    (exists and is unique when nothing ties); computed by brute force over
    all stable matchings, NOT by deferred acceptance."""
    stables = stable_matchings(edges, storm_pref, rise_pref)
    storms = {s for s, _ in edges}
    best = {}
    for s in storms:
        options = []
        for m in stables:
            r = next((r for r, s2 in m.items() if s2 == s), None)
            options.append(None if r is None else storm_pref[(s, r)])
        matched = [o for o in options if o is not None]
        best[s] = max(matched) if matched else None
    for m in stables:
        ok = True
        for s in storms:
            r = next((r for r, s2 in m.items() if s2 == s), None)
            val = None if r is None else storm_pref[(s, r)]
            if val != best[s]:
                ok = False
                break
        if ok:
            return m
    return None


def first_choices_conflict(edges, storm_pref):
    """Do two storms share their most preferred rise?  (then deferred
    acceptance must reject or displace someone)"""
    first = {}
    for s, r in edges:
        if s not in first or storm_pref[(s, r)] > storm_pref[(s, first[s])]:
            first[s] = r
    targets = list(first.values())
    return len(set(targets)) != len(targets)


def max_degree(edges):
    deg = {}
    for s, r in edges:
        deg[('s', s)] = deg.get(('s', s), 0) + 1
        deg[('r', r)] = deg.get(('r', r), 0) + 1
    return max(deg.values()) if deg else 0


def enumerate_strict_instances(ns, nr):
    """Every candidate graph on ns x nr vertices with every strict
    preference profile on both sides.  Yields (edges, s_order, r_order)
    with s_order[s] = rises from worst to best, r_order[r] = storms from
    worst to best."""
    pairs = [(s, r) for s in range(ns) for r in range(nr)]
    for mask in range(1, 2 ** len(pairs)):
        edges = [p for i, p in enumerate(pairs) if mask >> i & 1]
        if {s for s, _ in edges} != set(range(ns)) or {
                r for _, r in edges} != set(range(nr)):
            continue  # isolated vertex: covered by the smaller size
        s_nb = {s: [r for s2, r in edges if s2 == s] for s in range(ns)}
        r_nb = {r: [s for s, r2 in edges if r2 == r] for r in range(nr)}
        s_perms = [list(itertools.permutations(s_nb[s])) for s in range(ns)]
        r_perms = [list(itertools.permutations(r_nb[r])) for r in range(nr)]
        for sp in itertools.product(*s_perms):
            for rp in itertools.product(*r_perms):
                yield edges, sp, rp
