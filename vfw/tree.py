"""Import spowtd from the *current working tree* of the repository.

The checkout directory (default /repo, override with SPOWTD_REPO for
scratch worktrees) is put first on sys.path; nothing is installed and
no bytecode is written into it.
"""

import importlib
import os
import sys

from vfw.core import REPO_DIR, HarnessError

sys.dont_write_bytecode = True
if REPO_DIR not in sys.path:
    sys.path.insert(0, REPO_DIR)


def mod(name):
    """Return spowtd.<name>, imported from the working tree."""
    module = importlib.import_module('spowtd.' + name)
    path = os.path.realpath(getattr(module, '__file__', ''))
    if not path.startswith(os.path.realpath(REPO_DIR) + os.sep):
        raise HarnessError(
            'spowtd.{} imported from {} instead of {}'.format(
                name, path, REPO_DIR
            )
        )
    return module
