"""Reference model of `spowtd load` (never imports spowtd).

Written from the statement of C10: the grid is the rainfall timestamps
within the span of the water-level record plus one closing instant;
rain and ET are copied onto [t, t+step); water level is the linear
interpolation of the bracketing source samples; instants strictly inside
a gap (two consecutive source samples further apart than the smallest
source spacing) get no water level and no label; labels are constant
between gaps and differ across a gap.
"""

import bisect
from fractions import Fraction as F


class Refused(Exception):
    """The model says `load` must refuse this input."""


def expected(case):
    t0, dt = case['t0'], case['dt']
    rain = sorted((int(round(t0 + i * dt)), v) for i, v in case['rain'])
    et = dict((int(round(t0 + i * dt)), v) for i, v in case['et'])
    wl = sorted((int(round(t0 + off)), v) for off, v in case['wl'])
    if len(wl) < 2:
        raise Refused('fewer than two water-level samples')
    wt = [t for t, _ in wl]
    wv = [v for _, v in wl]
    grid = [t for t, _ in rain if wt[0] <= t <= wt[-1]]
    steps = sorted(set(b - a for a, b in zip(grid[:-1], grid[1:])))
    if len(steps) != 1:
        raise Refused('nonuniform or too short rainfall grid')
    step = steps[0]
    closing = grid[-1] + step
    full_grid = grid + [closing]
    missing_et = [t for t in full_grid if t not in et]
    if missing_et:
        raise Refused('ET missing for {} grid instants'.format(
            len(missing_et)))
    rain_d = dict(rain)
    spacing = [b - a for a, b in zip(wt[:-1], wt[1:])]
    smallest = min(spacing)
    gaps = [(wt[i], wt[i + 1]) for i, d in enumerate(spacing)
            if d != smallest]
    water = {}
    in_gap = set()
    for t in grid:
        if any(a < t < b for a, b in gaps):
            in_gap.add(t)
            continue
        i = bisect.bisect_right(wt, t) - 1
        if wt[i] == t:
            water[t] = F(wv[i])
        else:
            a, b = wt[i], wt[i + 1]
            water[t] = F(wv[i]) + (F(wv[i + 1]) - F(wv[i])) * F(
                t - a, b - a)
    if any(a < closing < b for a, b in gaps):
        in_gap.add(closing)
    return {
        'step': step,
        'grid': full_grid,
        'rain': [(t, t + step, rain_d[t]) for t in grid],
        'et': [(t, t + step, et[t]) for t in grid],
        'water': water,
        'in_gap': in_gap,
        'gaps': gaps,
    }


def gap_between(gaps, ta, tb):
    """Is there a gap separating instants ta < tb (both outside gaps)?"""
    return any(ta <= a and b <= tb for a, b in gaps)
