"""Model of the inputs of the master curves (never imports spowtd).

From the classified tables of a dataset: the series every interval
contributes (a recession = the samples between its start and thru, re-based
to its first sample; a rise = the straight segment from zero depth at its
initial level to its storm's total rain depth at its final level), their
exact level crossings, the overlap components and the main body.
"""

from fractions import Fraction as F

from vfw import model_crossings as mc
from vfw import gen_series


def recession_series(connection):
    """{start_epoch: {'x': [...], 'y': [...]}} of interstorm intervals."""
    water = connection.execute(
        'SELECT epoch, zeta_mm FROM water_level ORDER BY epoch').fetchall()
    out = {}
    for start, thru in connection.execute(
            "SELECT start_epoch, thru_epoch FROM zeta_interval "
            "WHERE interval_type = 'interstorm' ORDER BY start_epoch"):
        pts = [(e, z) for e, z in water if start <= e <= thru]
        out[start] = {'x': [float(e - start) for e, _ in pts],
                      'y': [z for _, z in pts]}
    return out


def rise_series(connection):
    """{rise start_epoch: series, ...} plus {rise start: storm start}."""
    water = dict(connection.execute('SELECT epoch, zeta_mm FROM water_level'))
    rain = connection.execute(
        'SELECT from_epoch, thru_epoch, rainfall_intensity_mm_h '
        'FROM rainfall_intensity ORDER BY from_epoch').fetchall()
    out, storm_of = {}, {}
    for rise_start, rise_thru, storm_start, storm_thru in connection.execute(
            """SELECT zi.start_epoch, zi.thru_epoch, s.start_epoch,
                      s.thru_epoch
               FROM zeta_interval_storm AS zis
               JOIN zeta_interval AS zi
                 ON zi.start_epoch = zis.interval_start_epoch
               JOIN storm AS s ON s.start_epoch = zis.storm_start_epoch
               ORDER BY zi.start_epoch"""):
        depth = sum(F(v) * F(b - a, 3600) for a, b, v in rain
                    if storm_start <= a and b <= storm_thru)
        out[rise_start] = {
            'x': [0.0, float(depth)],
            'y': [water[rise_start], water[rise_thru]],
            'depth': depth,
        }
        storm_of[rise_start] = storm_start
    return out, storm_of


def crossing_table(series, h):
    """{level: {key: mean crossing (float)}} under the rounded-quotient
    reading; also the set of keys having an ambiguous sample."""
    table = {}
    ambiguous = set()
    for key, s in series.items():
        if mc.has_ambiguous_sample(s['y'], h):
            ambiguous.add(key)
        for k, xm in mc.mean_crossings_rounded(s['x'], s['y'], h).items():
            table.setdefault(k, {})[key] = float(xm)
    return table, ambiguous


def main_body(table):
    """(main series set, its multi-series levels, unambiguous?) -- the
    component with the most levels; unambiguous when it is strictly
    largest by levels and has >= 2 series sharing a level."""
    comps = gen_series.components(table)
    if not comps:
        return set(), set(), False
    comps.sort(key=lambda c: len(c[1]), reverse=True)
    best = comps[0]
    strictly = len(comps) == 1 or len(comps[1][1]) < len(best[1])
    levels = {k for k in best[1] if len(table[k]) >= 2}
    members = set()
    for k in levels:
        members.update(table[k])
    return members, levels, bool(strictly and levels)


def grid_range(connection, h):
    """Integers k with min <= k*h < max over the stored water levels (the
    half-open rule of C12), rounded-quotient reading."""
    import math
    lo, hi = connection.execute(
        'SELECT min(zeta_mm), max(zeta_mm) FROM water_level').fetchone()
    return math.ceil(lo / h), math.ceil(hi / h)  # [first, stop)
