"""A small model of PEST's file readers, written from the PEST manual
(never imports spowtd).

  template   first line `ptf <d>`; a placeholder is the text between two
             delimiters on one line; its name is that text stripped, its
             width includes both delimiters; names are case-insensitive.
  instruction first line `pif <d>`; `<d>text<d>` (primary marker) moves to
             the next line containing text; `l1` advances one line;
             `[obs]c1:c2` reads the number in columns c1..c2 (1-based,
             inclusive) of the current line.
  control    sections introduced by `* name`; the fourth line holds
             NPAR NOBS NPARGP NPRIOR NOBSGP.
"""

import re


def template_placeholders(text):
    lines = text.splitlines()
    head = lines[0].split()
    if len(head) != 2 or head[0].lower() != 'ptf' or len(head[1]) != 1:
        raise ValueError('bad template header {!r}'.format(lines[0]))
    d = re.escape(head[1])
    out = []
    for number, line in enumerate(lines[1:], start=1):
        for m in re.finditer(d + '([^' + d + ']*)' + d, line):
            out.append({'name': m.group(1).strip(), 'line': number,
                        'start': m.start(), 'width': m.end() - m.start()})
    return head[1], out


def fill_template(text, values, render):
    """Replace every placeholder by render(value) padded to its width
    (values keyed by case-folded name); returns the model input file
    (without the ptf line)."""
    delimiter, holders = template_placeholders(text)
    lines = text.splitlines()
    by_line = {}
    for h in holders:
        by_line.setdefault(h['line'], []).append(h)
    out = []
    for number, line in enumerate(lines[1:], start=1):
        for h in sorted(by_line.get(number, []), key=lambda q: -q['start']):
            value_text = render(values[h['name'].lower()])
            if len(value_text) > h['width']:
                raise OverflowError(
                    'placeholder {} ({} columns) narrower than {!r}'.format(
                        h['name'], h['width'], value_text))
            line = (line[:h['start']] + value_text.rjust(h['width'])
                    + line[h['start'] + h['width']:])
        out.append(line)
    return '\n'.join(out) + '\n'


def read_instructions(ins_text, output_text):
    """Apply an instruction file to a model output file.

    Returns [(observation name, text in the columns, float or None)]."""
    ins = ins_text.splitlines()
    head = ins[0].split()
    if len(head) != 2 or head[0].lower() != 'pif':
        raise ValueError('bad instruction header {!r}'.format(ins[0]))
    d = head[1]
    lines = output_text.splitlines()
    cursor = -1
    out = []
    for instruction in ins[1:]:
        instruction = instruction.strip()
        if not instruction:
            continue
        if instruction.startswith(d):
            marker = instruction.strip(d)
            cursor += 1
            while cursor < len(lines) and marker not in lines[cursor]:
                cursor += 1
            if cursor >= len(lines):
                raise LookupError('marker {!r} not found'.format(marker))
            continue
        m = re.fullmatch(r'l(\d+)\s+\[(\w+)\](\d+):(\d+)', instruction)
        if not m:
            raise ValueError('unsupported instruction {!r}'.format(
                instruction))
        cursor += int(m.group(1))
        if cursor >= len(lines):
            raise LookupError('instruction {!r} past end of file'.format(
                instruction))
        c1, c2 = int(m.group(3)), int(m.group(4))
        field = lines[cursor][c1 - 1:c2]
        try:
            value = float(field)
        except ValueError:
            value = None
        out.append((m.group(2), field, value, lines[cursor]))
    return out


def control_sections(text):
    sections = {}
    current = None
    for line in text.splitlines():
        if line.startswith('*'):
            current = line[1:].strip().lower()
            sections[current] = []
        elif current is not None:
            sections[current].append(line)
    return sections


def control_counts(text):
    lines = text.splitlines()
    if lines[0].strip().lower() != 'pcf' or not lines[1].startswith(
            '* control data'):
        raise ValueError('bad control file header')
    npar, nobs, npargp, nprior, nobsgp = (int(v) for v in lines[3].split())
    return {'NPAR': npar, 'NOBS': nobs, 'NPARGP': npargp,
            'NPRIOR': nprior, 'NOBSGP': nobsgp}
