"""Core of the verification framework: violations, signatures, parts.

Everything here is harness-side; nothing imports spowtd except through
``vfw.tree``.
"""

import hashlib
import json
import os
import re
import traceback

VERIF_DIR = os.path.dirname(os.path.dirname(os.path.abspath(__file__)))
REPO_DIR = os.environ.get('SPOWTD_REPO', '/repo')


class Violation(Exception):
    """The property does not hold on this case.

    signature: root-cause signature (stable across unrelated edits).
    detail: free text for the replay file.
    """

    def __init__(self, signature, detail=''):
        super().__init__('{}: {}'.format(signature, detail))
        self.signature = signature
        self.detail = detail


class Reject(Exception):
    """The generated case is outside the property's domain (counted)."""

    def __init__(self, why='rejected'):
        super().__init__(why)
        self.why = why


class HarnessError(Exception):
    """Something is wrong with the harness itself (exit 2)."""


def canonical(case):
    return json.dumps(case, sort_keys=True, separators=(',', ':'))


def case_hash(case):
    return hashlib.sha1(canonical(case).encode()).hexdigest()


_NUM = re.compile(r'[-+]?\d+(\.\d*)?([eE][-+]?\d+)?')


def message_class(message, limit=48):
    """Normalise an exception message: numbers out, truncated."""
    text = _NUM.sub('#', str(message))
    text = re.sub(r'\s+', ' ', text).strip()
    return text[:limit]


def exception_signature(exc, prefix='exc'):
    """(type, innermost spowtd function, message class) as one string.

    Function names, not line numbers, so the signature survives edits
    elsewhere.  Returns None when no frame of the code under test is on
    the traceback (then the failure is the harness's own).
    """
    repo_pkg = os.path.join(os.path.realpath(REPO_DIR), 'spowtd') + os.sep
    func = None
    for frame, _ in traceback.walk_tb(exc.__traceback__):
        filename = os.path.realpath(frame.f_code.co_filename)
        if filename.startswith(repo_pkg):
            func = '{}.{}'.format(
                os.path.splitext(os.path.basename(filename))[0],
                frame.f_code.co_name,
            )
    if func is None:
        return None
    return '{}:{}@{}:{}'.format(
        prefix, type(exc).__name__, func, message_class(exc)
    )


def guarded(fn, *args, **kwargs):
    """Call code under test; an exception escaping it is a Violation
    carrying its root-cause signature (unless the caller handles the
    exception type itself beforehand)."""
    try:
        return fn(*args, **kwargs)
    except (Violation, Reject, HarnessError):
        raise
    except Exception as exc:  # pylint: disable=broad-except
        sig = exception_signature(exc)
        if sig is None:
            raise HarnessError(
                'exception outside the code under test: {!r}\n{}'.format(
                    exc, traceback.format_exc()
                )
            ) from exc
        raise Violation(sig, repr(exc)) from exc


class Part:
    """One generated search with its oracle.

    name      identifier (used in replay files)
    strategy  callable(tier) -> hypothesis strategy of JSON-able cases,
              or None for enumerated parts
    check     callable(case) -> iterable of labels; the label
              'nontrivial' marks a case that is non-trivial by the
              property's stated rule.  Raises Violation / Reject.
    budget    {'quick': examples per shard, 'thorough': ...}
    shards    {'quick': n, 'thorough': n}
    enumerate callable(tier, shard, nshards) -> iterator of cases, for
              finite sub-domains (then strategy is None)
    exhaustive  {'quick': bool, 'thorough': bool}: the enumeration
              covers its whole declared sub-domain
    """

    def __init__(
        self,
        name,
        check,
        strategy=None,
        budget=None,
        shards=None,
        enumerate=None,  # pylint: disable=redefined-builtin
        exhaustive=None,
        describe='',
        state_machine=None,
        fuzz_of=None,
        fuzz_runs=0,
    ):
        self.name = name
        self.check = check
        self.strategy = strategy
        self.budget = budget or {'quick': 200, 'thorough': 1000}
        self.shards = shards or {'quick': 4, 'thorough': 16}
        self.enumerate = enumerate
        self.exhaustive = exhaustive or {'quick': False, 'thorough': False}
        self.describe = describe
        self.state_machine = state_machine
        # coverage-guided campaign (atheris) over the strategy and oracle of
        # another part; runs per shard in the thorough tier
        self.fuzz_of = fuzz_of
        self.fuzz_runs = fuzz_runs


def load_output_yaml(text, what):
    """Parse text written by the code under test as YAML; text that is not
    YAML, or not the promised list (of numbers / of rows), is a Violation,
    not a harness error."""
    import yaml
    try:
        doc = yaml.safe_load(text)
    except yaml.YAMLError as exc:
        raise Violation('output-not-yaml:' + what, str(exc)[:200]) from exc
    if not isinstance(doc, list):
        raise Violation('output-not-a-yaml-sequence:' + what,
                        repr(doc)[:200])
    return doc


def numbers(seq, what):
    """A list that must hold plain numbers (the observation vector)."""
    if not all(isinstance(v, (int, float)) and not isinstance(v, bool)
               for v in seq):
        raise Violation('output-vector-not-numeric:' + what,
                        repr(seq)[:200])
    return [float(v) for v in seq]
