"""C18 -- the simulated recession curve obeys the water-balance equation."""

import copy

import numpy as np
import scipy.integrate
from hypothesis import strategies as st

from vfw import tree, gen_params
from vfw.core import Part, Violation, guarded
from vfw.props.C15 import closed_form
from vfw.props.C16 import formula as peatclsm_formula

LEVEL = 'exploration'
RULE = (
    'Function level: parameter sets of both kinds (spline specific-yield '
    'knots >= 5 mm apart and positive; spline or PEATCLSM transmissivity) x '
    'ET >= 0, curvature >= 0, not both zero x grids of 2-10 levels below '
    'the transmissivity ceiling, cells <= 60 mm, ascending and descending, '
    'refined. Oracle: t[i]-t[i-1] equals an independent quadrature of '
    'Sy/(-ET - curvature*T) with all knots as break points and T taken from '
    'the closed form (rtol 1e-4, DESIGN 3.7); time strictly increases as the '
    'level falls; differences at shared levels invariant under refinement '
    'and reversal; with curvature 0, ET*(t[i]-t[j]) = -(W[i]-W[j]) with W '
    'from compute_rise_curve; mean = requested mean. CLI level (part cli): '
    'planted datasets with time-varying ET (see check_cli). Non-trivial: '
    'curvature > 0 with spline transmissivity (function level), or an ET '
    'series that is not constant over the recession steps (CLI level); '
    'distinct = SHA-1 of the canonical case.'
)
ASSUMPTIONS = [
    'closed-form transmissivity of C15 / C16 on the oracle side',
    'scipy.integrate.quad with break points (reference side)',
]


@st.composite
def cases(draw):
    sy_kind = draw(st.sampled_from(['spline', 'spline', 'spline', 'peatclsm']))
    t_kind = draw(st.sampled_from(['spline', 'spline', 'peatclsm']))
    if sy_kind == 'spline':
        sy = draw(gen_params.spline_sy(min_gap=5.0, positive=True))
        lo, hi = sy['zeta_knots_mm'][0] - 50.0, sy['zeta_knots_mm'][-1] + 50.0
    else:
        sy = draw(gen_params.peatclsm_sy())
        lo, hi = -900.0, 400.0
    n = draw(st.integers(2, 10))
    top = draw(st.floats(lo + 10.0, hi))
    cells = draw(st.lists(
        st.one_of(st.sampled_from([1.0, 5.0, 10.0]), st.floats(0.5, 60.0)),
        min_size=n - 1, max_size=n - 1))
    levels = [round(top, 4)]
    for c in cells:
        levels.append(round(levels[-1] - c, 4))
    levels = sorted(set(levels))
    if t_kind == 'spline':
        T = draw(gen_params.spline_T(min_gap=5.0, min_n=2, max_n=6))
        # ceiling: highest knot must lie at or above the top grid level
        z = T['zeta_knots_mm']
        shift = 0.0
        if z[-1] < levels[-1]:
            shift = levels[-1] - z[-1] + draw(st.floats(0.0, 100.0))
        T['zeta_knots_mm'] = [round(v + shift, 4) for v in z]
    else:
        T = draw(gen_params.peatclsm_T())
        T['zeta_max_cm'] = round(
            levels[-1] / 10 + draw(st.floats(0.05, 30.0)), 3)
    mode = draw(st.sampled_from(['et-only', 'curv-only', 'both', 'both']))
    et = 0.0 if mode == 'curv-only' else draw(st.floats(0.05, 12.0))
    curv = 0.0 if mode == 'et-only' else draw(
        st.sampled_from([1e-3, 0.01, 0.1, 1.0, 5.0]))
    if t_kind == 'peatclsm' and curv:
        curv = curv * 1e-3
    extra = draw(st.lists(st.floats(levels[0], levels[-1]).map(
        lambda v: round(v, 4)), min_size=1, max_size=3))
    mean = draw(st.one_of(st.just(0.0), st.floats(-50.0, 50.0)))
    return {'sy': sy, 'T': T, 'levels': levels, 'et': et, 'curv': curv,
            'extra': extra, 'mean': mean}


def reference_T(T, level):
    if T['type'] == 'spline':
        return closed_form(T, level)
    return peatclsm_formula(
        T['Ksmacz0'], T['alpha'], T['zeta_max_cm'], level) * 86400.0


def check(case):
    sy_mod = tree.mod('specific_yield')
    t_mod = tree.mod('transmissivity')
    rec_mod = tree.mod('simulate_recession')
    rise_mod = tree.mod('simulate_rise')
    sy_p, T_p = case['sy'], case['T']
    sy = guarded(sy_mod.create_specific_yield_function, copy.deepcopy(sy_p))
    T_raw = guarded(t_mod.create_transmissivity_function, copy.deepcopy(T_p))
    if T_p['type'] == 'peatclsm':
        def T_m2_d(z):
            return T_raw(z) * 24 * 3600
    else:
        T_m2_d = T_raw
    et, curv = case['et'], case['curv']
    levels = np.array(case['levels'], dtype=float)

    def run(grid):
        return np.asarray(guarded(
            rec_mod.compute_recession_curve,
            specific_yield=sy, transmissivity_m2_d=T_m2_d,
            zeta_grid_mm=np.array(grid, dtype=float),
            mean_elapsed_time_d=case['mean'], curvature_km=curv,
            et_mm_d=et), dtype=float)

    t = run(levels)
    if t.shape != levels.shape or not np.isfinite(t).all():
        raise Violation('recession-curve-shape-or-nonfinite', repr(t)[:200])
    knots = set()
    if sy_p['type'] == 'spline':
        knots.update(sy_p['zeta_knots_mm'])
    else:
        knots.update(float(v) for v in sy.zeta_knots_mm)
    if T_p['type'] == 'spline':
        knots.update(T_p['zeta_knots_mm'])
    knots = sorted(knots)

    def integrand(z):
        return float(sy(z)) / (-et - curv * reference_T(T_p, z))

    refs = []
    for a, b in zip(levels[:-1], levels[1:]):
        pts = [float(a)] + [k for k in knots if a < k < b] + [float(b)]
        total = 0.0
        for p, q in zip(pts[:-1], pts[1:]):
            total += scipy.integrate.quad(
                integrand, p, q, epsabs=0, epsrel=1e-11, limit=200)[0]
        refs.append(total)
    refs = np.array(refs)
    scale = np.abs(refs).sum() + 1e-12
    dt = np.diff(t)
    bad = np.nonzero(np.abs(dt - refs) > 1e-4 * np.abs(refs) + 1e-7 * scale)[0]
    if len(bad):
        i = int(bad[0])
        raise Violation(
            'recession-difference-not-water-balance',
            'cell {!r}..{!r}: dt={!r} expected {!r}'.format(
                levels[i], levels[i + 1], dt[i], refs[i]))
    dense = np.concatenate([
        np.linspace(a, b, 65) for a, b in zip(levels[:-1], levels[1:])])
    sy_positive = bool((np.asarray(sy(dense), dtype=float) > 0).all())
    # (a cubic spline through positive knots may dip below zero in between;
    # the statement's monotonicity presupposes a positive specific yield)
    if sy_positive and not (dt < 0).all():
        raise Violation('recession-time-not-increasing-as-level-falls',
                        repr(dt.tolist()))
    if abs(t.mean() - case['mean']) > 1e-9 * (scale + abs(case['mean'])):
        raise Violation('recession-mean-not-requested', repr(t.mean()))
    tol = 1e-4 * scale
    # reversal
    t_rev = run(levels[::-1])[::-1]
    if (np.abs((t_rev - t_rev[0]) - (t - t[0])) > tol).any():
        raise Violation('recession-not-reversal-invariant', '')
    # refinement
    fine = sorted(set(case['levels']) | set(case['extra']))
    t_fine = run(fine)
    idx = {v: i for i, v in enumerate(fine)}
    shared = np.array([t_fine[idx[v]] for v in case['levels']])
    if (np.abs((shared - shared[0]) - (t - t[0])) > tol).any():
        raise Violation('recession-not-refinement-invariant', '')
    labels = {'sy-' + sy_p['type'], 'T-' + T_p['type']}
    labels.add('sy-positive' if sy_positive else 'sy-dips-negative')
    if curv == 0:
        W = np.asarray(guarded(
            rise_mod.compute_rise_curve, sy, levels, 0.0), dtype=float)
        lhs = et * (t - t[0])
        rhs = -(W - W[0])
        wscale = np.abs(np.diff(W)).sum() + 1e-12
        if (np.abs(lhs - rhs) > 1e-4 * wscale).any():
            raise Violation('recession-et-times-time-not-storage',
                            repr((lhs - rhs).tolist()))
        labels.add('curvature-zero')
    if curv > 0 and T_p['type'] == 'spline':
        labels.add('nontrivial')
    return labels


PARTS = [
    Part('function', check, strategy=lambda tier: cases(),
         budget={'quick': 60, 'thorough': 1500},
         describe='simulate_recession.compute_recession_curve'),
]
