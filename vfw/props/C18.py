"""C18 -- the simulated recession curve obeys the water-balance equation."""

import copy
import math

import numpy as np
import scipy.integrate
from hypothesis import strategies as st

from vfw import tree, gen_params
from vfw.core import Part, Violation, guarded
from vfw.props.C15 import closed_form
from vfw.props.C16 import formula as peatclsm_formula

LEVEL = 'exploration'
RULE = (
    'Function level: parameter sets of both kinds (spline specific-yield '
    'knots >= 5 mm apart and positive; spline or PEATCLSM transmissivity) x '
    'ET >= 0, curvature >= 0, not both zero x grids of 2-10 levels below '
    'the transmissivity ceiling, cells <= 60 mm, ascending and descending, '
    'refined; a quarter of the grids are whole millimetres handed over as an '
    'integer array. Oracle: t[i]-t[i-1] equals an independent quadrature of '
    'Sy/(-ET - curvature*T) with all knots as break points and T taken from '
    'the closed form (rtol 1e-6 since the code integrates knot by knot, plus '
    'quad\'s own absolute tolerance 3e-8 d per cell; was 1e-4 before that '
    'repair, DESIGN 3.7); time strictly increases as the '
    'level falls; differences at shared levels invariant under refinement '
    'and reversal; with curvature 0, ET*(t[i]-t[j]) = -(W[i]-W[j]) with W '
    'from compute_rise_curve; mean = requested mean. CLI level (part cli): '
    'planted datasets with time-varying ET (see check_cli). Non-trivial: '
    'curvature > 0 with spline transmissivity (function level), or an ET '
    'series that is not constant over the recession steps (CLI level); '
    'distinct = SHA-1 of the canonical case.'
)
ASSUMPTIONS = [
    'closed-form transmissivity of C15 / C16 on the oracle side',
    'scipy.integrate.quad with break points (reference side)',
]


@st.composite
def cases(draw):
    sy_kind = draw(st.sampled_from(['spline', 'spline', 'spline', 'peatclsm']))
    t_kind = draw(st.sampled_from(['spline', 'spline', 'peatclsm']))
    if sy_kind == 'spline':
        sy = draw(gen_params.spline_sy(min_gap=5.0, positive=True))
        lo, hi = sy['zeta_knots_mm'][0] - 50.0, sy['zeta_knots_mm'][-1] + 50.0
    else:
        sy = draw(gen_params.peatclsm_sy())
        lo, hi = -900.0, 400.0
    n = draw(st.integers(2, 10))
    top = draw(st.floats(lo + 10.0, hi))
    cells = draw(st.lists(
        st.one_of(st.sampled_from([1.0, 5.0, 10.0]), st.floats(0.5, 60.0)),
        min_size=n - 1, max_size=n - 1))
    levels = [round(top, 4)]
    for c in cells:
        levels.append(round(levels[-1] - c, 4))
    levels = sorted(set(levels))
    int_grid = draw(st.sampled_from([False, False, False, True]))
    if int_grid:
        # a whole-millimetre grid, handed over as an integer array
        # (np.arange(0, -401, -50))
        levels = sorted(set(float(math.floor(v)) for v in levels))
        if len(levels) < 2:
            levels = [levels[0] - 5.0, levels[0]]
    if t_kind == 'spline':
        T = draw(gen_params.spline_T(min_gap=5.0, min_n=2, max_n=6))
        # ceiling: highest knot must lie at or above the top grid level
        z = T['zeta_knots_mm']
        shift = 0.0
        if z[-1] < levels[-1]:
            shift = levels[-1] - z[-1] + draw(st.floats(0.0, 100.0))
        T['zeta_knots_mm'] = [round(v + shift, 4) for v in z]
    else:
        T = draw(gen_params.peatclsm_T())
        T['zeta_max_cm'] = round(
            levels[-1] / 10 + draw(st.floats(0.05, 30.0)), 3)
    mode = draw(st.sampled_from(['et-only', 'curv-only', 'both', 'both']))
    et = 0.0 if mode == 'curv-only' else draw(st.floats(0.05, 12.0))
    curv = 0.0 if mode == 'et-only' else draw(
        st.sampled_from([1e-3, 0.01, 0.1, 1.0, 5.0]))
    if t_kind == 'peatclsm' and curv:
        curv = curv * 1e-3
    extra = draw(st.lists(st.floats(levels[0], levels[-1]).map(
        lambda v: round(v, 4)), min_size=1, max_size=3))
    mean = draw(st.one_of(st.just(0.0), st.floats(-50.0, 50.0)))
    return {'sy': sy, 'T': T, 'levels': levels, 'et': et, 'curv': curv,
            'extra': extra, 'mean': mean, 'int_grid': int_grid}


def reference_T(T, level):
    if T['type'] == 'spline':
        return closed_form(T, level)
    return peatclsm_formula(
        T['Ksmacz0'], T['alpha'], T['zeta_max_cm'], level) * 86400.0


def check(case):
    sy_mod = tree.mod('specific_yield')
    t_mod = tree.mod('transmissivity')
    rec_mod = tree.mod('simulate_recession')
    rise_mod = tree.mod('simulate_rise')
    sy_p, T_p = case['sy'], case['T']
    sy = guarded(sy_mod.create_specific_yield_function, copy.deepcopy(sy_p))
    T_raw = guarded(t_mod.create_transmissivity_function, copy.deepcopy(T_p))
    if T_p['type'] == 'peatclsm':
        def T_m2_d(z):
            return T_raw(z) * 24 * 3600
    else:
        T_m2_d = T_raw
    et, curv = case['et'], case['curv']
    levels = np.array(case['levels'], dtype=float)

    def run(grid):
        return np.asarray(guarded(
            rec_mod.compute_recession_curve,
            specific_yield=sy, transmissivity_m2_d=T_m2_d,
            zeta_grid_mm=(grid if isinstance(grid, np.ndarray)
                          else np.array(grid, dtype=float)),
            mean_elapsed_time_d=case['mean'], curvature_km=curv,
            et_mm_d=et), dtype=float)

    if case.get('int_grid') and all(float(v).is_integer() for v in levels):
        t = run(np.array([int(v) for v in levels]))
    else:
        t = run(levels)
    if t.shape != levels.shape or not np.isfinite(t).all():
        raise Violation('recession-curve-shape-or-nonfinite', repr(t)[:200])
    knots = set()
    if sy_p['type'] == 'spline':
        knots.update(sy_p['zeta_knots_mm'])
    else:
        knots.update(float(v) for v in sy.zeta_knots_mm)
    if T_p['type'] == 'spline':
        knots.update(T_p['zeta_knots_mm'])
    knots = sorted(knots)

    def integrand(z):
        return float(sy(z)) / (-et - curv * reference_T(T_p, z))

    refs = []
    for a, b in zip(levels[:-1], levels[1:]):
        pts = [float(a)] + [k for k in knots if a < k < b] + [float(b)]
        total = 0.0
        for p, q in zip(pts[:-1], pts[1:]):
            total += scipy.integrate.quad(
                integrand, p, q, epsabs=0, epsrel=1e-11, limit=200)[0]
        refs.append(total)
    refs = np.array(refs)
    scale = np.abs(refs).sum() + 1e-12
    dt = np.diff(t)
    # quad's default absolute tolerance (1.49e-8 per cell, in days) bounds
    # what the code can resolve where the integrand is minute (PEATCLSM
    # transmissivity close to its ceiling): 3e-8 d = 2.6 ms
    # ... and differences of the accumulated curve cannot be finer than its
    # floating-point resolution
    floor = 3e-8 + 8 * np.finfo(float).eps * np.abs(t).max()
    bad = np.nonzero(np.abs(dt - refs) > 1e-6 * np.abs(refs) + floor)[0]
    if len(bad):
        i = int(bad[0])
        raise Violation(
            'recession-difference-not-water-balance',
            'cell {!r}..{!r}: dt={!r} expected {!r}'.format(
                levels[i], levels[i + 1], dt[i], refs[i]))
    dense = np.concatenate([
        np.linspace(a, b, 65) for a, b in zip(levels[:-1], levels[1:])])
    sy_positive = bool((np.asarray(sy(dense), dtype=float) > 0).all())
    # (a cubic spline through positive knots may dip below zero in between;
    # the statement's monotonicity presupposes a positive specific yield)
    # strictly increasing wherever the increment is resolvable: a cell whose
    # exact increment is below quad's absolute tolerance or below the
    # floating-point resolution of the accumulated curve may come out as 0
    resolution = 3e-8 + 8 * np.finfo(float).eps * np.abs(t).max()
    resolvable = np.abs(refs) > resolution
    if sy_positive and ((dt[resolvable] >= 0).any()
                        or (dt > resolution).any()):
        raise Violation('recession-time-not-increasing-as-level-falls',
                        repr(dt.tolist()))
    if abs(t.mean() - case['mean']) > 1e-9 * (scale + abs(case['mean'])):
        raise Violation('recession-mean-not-requested', repr(t.mean()))
    tol = 1e-4 * scale + floor
    # reversal
    t_rev = run(levels[::-1])[::-1]
    if (np.abs((t_rev - t_rev[0]) - (t - t[0])) > tol).any():
        raise Violation('recession-not-reversal-invariant', '')
    # refinement
    fine = sorted(set(case['levels']) | set(case['extra']))
    t_fine = run(fine)
    idx = {v: i for i, v in enumerate(fine)}
    shared = np.array([t_fine[idx[v]] for v in case['levels']])
    if (np.abs((shared - shared[0]) - (t - t[0])) > tol).any():
        raise Violation('recession-not-refinement-invariant', '')
    labels = {'sy-' + sy_p['type'], 'T-' + T_p['type']}
    labels.add('sy-positive' if sy_positive else 'sy-dips-negative')
    if curv == 0:
        W = np.asarray(guarded(
            rise_mod.compute_rise_curve, sy, levels, 0.0), dtype=float)
        lhs = et * (t - t[0])
        rhs = -(W - W[0])
        wscale = np.abs(np.diff(W)).sum() + 1e-12
        if (np.abs(lhs - rhs) > 1e-4 * wscale + et * floor).any():
            raise Violation('recession-et-times-time-not-storage',
                            repr((lhs - rhs).tolist()))
        labels.add('curvature-zero')
    if curv > 0 and T_p['type'] == 'spline':
        labels.add('nontrivial')
    return labels


PARTS = [
    Part('function', check, strategy=lambda tier: cases(),
         budget={'quick': 60, 'thorough': 1500},
         describe='simulate_recession.compute_recession_curve'),
]


# ---------------------------------------------------------------- CLI level

import yaml  # noqa: E402

from vfw import gen_truth, model_master  # noqa: E402
from vfw.core import Reject, load_output_yaml, numbers  # noqa: E402
from vfw.pipeline import Workflow  # noqa: E402
from vfw.props.C06 import read_curve  # noqa: E402
from vfw.props.C14 import reference_integral  # noqa: E402


@st.composite
def cli_cases(draw, tier):
    record = draw(gen_truth.truth_records(
        noise=draw(st.booleans()), min_storms=4, max_storms=8,
        et_varying=True))
    record['grid'] = draw(st.sampled_from(['1.0', '2.0', '5.0', '2.5']))
    levels = [v for _, v in record['wl']]
    lo, hi = min(levels), max(levels)
    # the two sections of a parameter file choose their kind independently
    sy_kind = draw(st.sampled_from(['spline', 'spline', 'peatclsm']))
    t_kind = draw(st.sampled_from([sy_kind, sy_kind, 'spline', 'peatclsm']))
    if sy_kind == 'spline':
        sy = draw(gen_params.spline_sy(min_gap=5.0, positive=True))
        z = sy['zeta_knots_mm']
        shift = (lo - 10.0) - z[0]
        sy['zeta_knots_mm'] = [round(v + shift, 4) for v in z]
    else:
        sy = draw(gen_params.peatclsm_sy())
    if t_kind == 'spline':
        T = draw(gen_params.spline_T(min_gap=5.0, min_n=2, max_n=5))
        zt = T['zeta_knots_mm']
        shift_t = (hi + draw(st.floats(1.0, 50.0))) - zt[-1]
        T['zeta_knots_mm'] = [round(v + shift_t, 4) for v in zt]
    else:
        T = draw(gen_params.peatclsm_T())
        T['zeta_max_cm'] = round(hi / 10 + draw(st.floats(0.5, 30.0)), 3)
    record['parameters'] = {'specific_yield': sy, 'transmissivity': T}
    record['curvature'] = draw(st.sampled_from(
        ['0', '0', '0.0', '2.36', '0.5', '10']))
    # a second set-curvature attempt with another value (refused today)
    record['curvature2'] = draw(st.sampled_from(
        [None, None, '0', '6.0', '0.25']))
    return record


def expected_et_mm_d(connection):
    """Time average of ET over all steps [t, t+step) lying inside the
    recession intervals that make up the master curve."""
    values = []
    for start, thru in connection.execute(
            """SELECT zi.start_epoch, zi.thru_epoch
               FROM recession_interval AS ri
               JOIN zeta_interval AS zi ON zi.start_epoch = ri.start_epoch
               WHERE zi.interval_type = 'interstorm'"""):
        values.extend(v for (v,) in connection.execute(
            'SELECT evapotranspiration_mm_h FROM evapotranspiration '
            'WHERE from_epoch >= ? AND thru_epoch <= ?', (start, thru)))
    first_steps = [v for (v,) in connection.execute(
        """SELECT e.evapotranspiration_mm_h FROM evapotranspiration AS e
           JOIN recession_interval AS ri ON e.from_epoch = ri.start_epoch""")]
    return (sum(values) / len(values) * 24, values,
            sum(first_steps) / len(first_steps) * 24)


def check_cli(case):
    h = float(case['grid'])
    params = case['parameters']
    curvature = float(case['curvature'])
    with Workflow(case) as wf:
        guarded(wf.load)
        guarded(wf.classify)
        guarded(wf.zeta_grid, case['grid'])
        connection = wf.connect()
        try:
            recs = model_master.recession_series(connection)
            table, _ = model_master.crossing_table(recs, h)
            ok = model_master.main_body(table)[2]
        finally:
            connection.close()
        if not ok:
            raise Reject('recession main body ambiguous')
        guarded(wf.recession)
        guarded(wf.set_curvature, case['curvature'])
        if case.get('curvature2') is not None:
            # whether the second attempt is refused (as today) or carried
            # out, the simulation must use the curvature then in force
            try:
                wf.set_curvature(case['curvature2'])
            except Exception:  # pylint: disable=broad-except
                labels_extra = 'second-set-curvature-refused'
            else:
                curvature = float(case['curvature2'])
                labels_extra = 'second-set-curvature-accepted'
        else:
            labels_extra = None
        connection = wf.connect()
        try:
            _, per_level = read_curve(connection, 'recession')
            et_mm_d, et_values, et_first = expected_et_mm_d(connection)
        finally:
            connection.close()
        if et_mm_d == 0 and curvature == 0:
            raise Reject('ET and curvature both zero')
        ppath = wf.path('parameters.yml')
        with open(ppath, 'w') as f:
            yaml.safe_dump(params, f)
        table_text = guarded(wf.simulate, 'recession', ppath, False)
        vector_text = guarded(wf.simulate, 'recession', ppath, True)
    measured = {k: sum(r.values()) / len(r) / 86400.0
                for k, r in per_level.items()}
    ks = sorted(measured, reverse=True)
    if len(ks) < 2:
        raise Reject('fewer than two levels')
    doc = load_output_yaml(table_text, 'recession-table')
    if not (isinstance(doc, list) and doc and isinstance(doc[0], list)
            and len(doc[0]) == 3 and all(isinstance(x, str) for x in doc[0])):
        raise Violation('recession-table-header-missing', repr(doc)[:200])
    rows = doc[1:]
    for row in rows:
        if not (isinstance(row, list) and len(row) == 3):
            raise Violation('recession-table-row-shape', repr(row)[:120])
        numbers(row, 'recession-table-row')
    if len(rows) != len(ks):
        raise Violation('recession-table-row-count', repr(len(rows)))
    scale = max(abs(v) for v in measured.values()) + 1e-6
    for row, k in zip(rows, ks):
        if abs(row[0] - k * h) > 1e-9 * max(abs(k * h), 1.0):
            if abs(row[0] * 10 - k * h) <= 1e-9 * max(abs(k * h), 1.0):
                raise Violation(
                    'recession-table-level-column-not-mm',
                    'column headed {!r} holds {!r} for the level {!r} '
                    'mm'.format(doc[0][0], row[0], k * h))
            raise Violation(
                'recession-table-level-column',
                'row level {!r}, expected {!r} mm (highest first)'.format(
                    row[0], k * h))
        if abs(row[1] - measured[k]) > 1e-9 * scale + 1e-12:
            raise Violation('recession-table-measured-column',
                            'level {}: {!r} vs {!r}'.format(
                                k, row[1], measured[k]))
    sim = [row[2] for row in rows]
    meas = [row[1] for row in rows]
    sscale = scale + max(abs(v) for v in sim)
    if abs(sum(sim) / len(sim) - sum(meas) / len(meas)) > 1e-9 * sscale:
        raise Violation('recession-table-mean-not-measured-mean', '')
    vector = numbers(load_output_yaml(vector_text, 'recession-vector'),
                     'recession-vector')
    if len(vector) != len(sim) or any(
            a != b and abs(a - b) > 1e-14 * max(abs(a), abs(b))
            for a, b in zip(vector, sim)):
        # (the vector may carry fewer digits than the table so that every
        # value fits the field read by the PEST instruction file)
        raise Violation('recession-observations-differ-from-table',
                        repr((vector[:3], sim[:3])))
    # the water balance, with the ET the statement prescribes
    sy_mod = tree.mod('specific_yield')
    sy = guarded(sy_mod.create_specific_yield_function,
                 copy.deepcopy(params['specific_yield']))
    sy_p, T_p = params['specific_yield'], params['transmissivity']
    knots = set()
    if sy_p['type'] == 'spline':
        knots.update(sy_p['zeta_knots_mm'])
    else:
        knots.update(float(v) for v in sy.zeta_knots_mm)
    if T_p['type'] == 'spline':
        knots.update(T_p['zeta_knots_mm'])
    knots = sorted(knots)
    labels = {sy_p['type'], 'curvature-zero' if curvature == 0
              else 'curvature-positive'}
    if sy_p['type'] != T_p['type']:
        labels.add('mixed-parameterisation')
    if labels_extra:
        labels.add(labels_extra)
    varying = len(set(et_values)) > 1
    if curvature == 0:
        z_hi, z_lo = ks[0] * h, ks[-1] * h
        storage, _ = reference_integral(sy, z_lo, z_hi, sorted(
            k for k in knots))
        elapsed = sim[-1] - sim[0]
        dense = np.linspace(z_lo, z_hi, 257)
        sy_positive = bool((np.asarray(sy(dense), dtype=float) > 0).all())
        if not sy_positive:
            labels.add('sy-dips-negative')
        if abs(storage) < 1e-6:
            # (e.g. PEATCLSM with a few millimetres of microtopography, far
            # below the surface: specific yield 1e-40, the whole curve lies
            # below the resolution of the printed times)
            raise Reject('no net storage change over the curve')
        if sy_positive and not elapsed > 0:
            raise Violation('recession-time-not-increasing-as-level-falls',
                            repr(elapsed))
        if elapsed == 0:
            raise Reject('no net storage change over the curve')
        et_used = storage / elapsed
        if abs(et_used - et_mm_d) > 1e-4 * et_mm_d + 1e-4 * abs(
                et_mm_d / storage):
            near_first = abs(et_used - et_first) <= 1e-4 * max(et_first, 1e-9)
            raise Violation(
                'recession-et-not-average-over-interval-steps'
                + (':first-step-only' if near_first else ''),
                'ET recovered from the output {!r} mm/d, average over the '
                'steps of the recession intervals {!r} mm/d (first steps '
                'only: {!r})'.format(et_used, et_mm_d, et_first))
    else:
        curv_km = curvature * 1e-3

        def integrand(z):
            return float(sy(z)) / (-et_mm_d - curv_km * reference_T(T_p, z))

        for (ka, ta), (kb, tb) in zip(zip(ks[:-1], sim[:-1]),
                                      zip(ks[1:], sim[1:])):
            a, b = ka * h, kb * h  # a > b (descending)
            pts = [b] + [k for k in knots if b < k < a] + [a]
            total = 0.0
            for p, q in zip(pts[:-1], pts[1:]):
                total += scipy.integrate.quad(
                    integrand, p, q, epsabs=0, epsrel=1e-11, limit=200)[0]
            # integral from b up to a of f (negative) = t(a) - t(b)
            want = -total  # t(b) - t(a) > 0
            if abs((tb - ta) - want) > (1e-4 * abs(want) + 1e-9 * sscale
                                        + 3e-8):
                raise Violation(
                    'recession-table-not-water-balance',
                    'levels {}..{}: {!r} vs {!r} (ET {!r}, curvature '
                    '{!r})'.format(ka, kb, tb - ta, want, et_mm_d, curv_km))
    if varying:
        labels.add('et-varies-over-intervals')
        labels.add('nontrivial')
    return labels


PARTS.append(
    Part('cli', check_cli, strategy=lambda tier: cli_cases(tier),
         budget={'quick': 15, 'thorough': 200},
         describe='`spowtd simulate recession` table, ET used, units'))
