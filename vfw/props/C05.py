"""C05 -- alignment offsets minimise the squared spread of crossing values."""

import copy

import numpy as np
from hypothesis import strategies as st

from vfw import tree, gen_series
from vfw.core import Part, Violation, Reject, guarded

LEVEL = 'exploration'
RULE = (
    'Function level (a): find_offsets on generated head mappings whose '
    'overlap graph is connected by construction (2-10 series, contiguous or '
    'ragged level ranges, crossing values = smooth curve + per-series shift '
    '+ noise, lattice or floats up to 1e6; part find_offsets_big: 12-130 series x 127-1400 levels, 16,000-65,000 equations in one fit, table derived from a few drawn numbers; part find_offsets_huge: 168,000 equations x 419 unknowns, a dense design matrix of more than half a gigabyte, judged by stationarity and perturbations). (b): get_series_time_offsets on '
    'generated series collections (falling, bumpy, rising; connected by '
    'construction) with the crossing table recomputed by the exact model. '
    'Table level (part tables): planted datasets with noisy pieces through '
    'the CLI `rise` / `recession` (see check_tables). Oracle: objective S(o) '
    '= sum over levels with >= 2 series of squared deviations of (offset + '
    'crossing) from the level mean, evaluated by the harness: (i) '
    'stationarity - for every series the residuals sum to zero within '
    '1e-9*(sum|terms|+1); (ii) S(o+d) >= S(o) - eps for generated '
    'perturbations d, with equality for the constant vector; (iii) agreement '
    'up to one common shift with an independent numpy.linalg.lstsq solution '
    'of a system assembled by the harness (uniqueness). Non-trivial: >= 3 '
    'series, overlap graph not complete, and a level crossed by exactly one '
    'series; distinct = SHA-1 of the case.'
)
ASSUMPTIONS = ['numpy.linalg.lstsq on the harness-assembled system']


def objective(table, offsets):
    """table {level: {sid: crossing}}, offsets {sid: o}."""
    total = 0.0
    for row in table.values():
        if len(row) < 2:
            continue
        vals = [offsets[s] + c for s, c in row.items()]
        mean = sum(vals) / len(vals)
        total += sum((v - mean) ** 2 for v in vals)
    return total


def residual_sums(table, offsets):
    sums = {s: 0.0 for s in offsets}
    mags = {s: 0.0 for s in offsets}
    for row in table.values():
        if len(row) < 2:
            continue
        vals = {s: offsets[s] + c for s, c in row.items()}
        mean = sum(vals.values()) / len(vals)
        for s, v in vals.items():
            sums[s] += v - mean
            mags[s] += abs(v) + abs(mean)
    return sums, mags


def independent_solution(table, sids):
    """Least squares via lstsq on the harness's own system: unknown per
    series, one equation per (level, series): o_s - mean_l(o) = -(c - mean c)
    ; gauge fixed by adding the equation sum(o) = 0."""
    index = {s: i for i, s in enumerate(sids)}
    rows, rhs = [], []
    for row in table.values():
        if len(row) < 2:
            continue
        n = len(row)
        cmean = sum(row.values()) / n
        for s, c in row.items():
            a = np.zeros(len(sids))
            for s2 in row:
                a[index[s2]] -= 1.0 / n
            a[index[s]] += 1.0
            rows.append(a)
            rhs.append(-(c - cmean))
    rows.append(np.ones(len(sids)))
    rhs.append(0.0)
    sol, *_ = np.linalg.lstsq(np.array(rows), np.array(rhs), rcond=None)
    return {s: float(sol[index[s]]) for s in sids}


def verify_minimiser(table, offsets, perturbations, independent=True):
    """The three oracle clauses; table restricted to the fitted series."""
    sids = sorted(offsets)
    scale = max([abs(c) for row in table.values() for c in row.values()]
                + [abs(o) for o in offsets.values()] + [1.0])
    sums, mags = residual_sums(table, offsets)
    # the solve is accurate relative to the size of the whole problem: a
    # series whose own terms happen to cancel to ~0 (stored offsets are
    # re-based to the reference level) still carries that absolute error
    whole = sum(mags.values())
    for s in sids:
        if abs(sums[s]) > 1e-9 * (mags[s] + 1.0) + 1e-12 * whole:
            raise Violation(
                'residuals-do-not-sum-to-zero',
                'series {}: sum {!r} (magnitude {!r})'.format(
                    s, sums[s], mags[s]))
    base = objective(table, offsets)
    eps = 1e-9 * (base + scale * scale * 1e-6) + 1e-12
    for d in perturbations:
        moved = {s: offsets[s] + d[i % len(d)] * scale * 1e-3
                 for i, s in enumerate(sids)}
        if objective(table, moved) < base - eps:
            raise Violation('perturbation-lowers-objective', repr(d))
    const = {s: offsets[s] + 0.37 * scale for s in sids}
    if abs(objective(table, const) - base) > 1e-6 * (base + 1e-9) + eps:
        raise Violation('objective-not-shift-invariant', '')
    if not independent:
        # (the half-gigabyte fit: stationarity and perturbations decide)
        return
    ref = independent_solution(table, sids)
    diffs = [offsets[s] - ref[s] for s in sids]
    spread = max(diffs) - min(diffs)
    if spread > 1e-7 * scale:
        raise Violation(
            'not-the-unique-minimiser',
            'differs from the lstsq solution by more than a common shift: '
            'spread {!r} (scale {!r})'.format(spread, scale))


# ------------------------------------------------------------ part (a)

@st.composite
def mapping_cases(draw):
    n = draw(st.integers(2, 10))
    nlev = draw(st.integers(1, 40))
    value_kind = draw(st.sampled_from(['lattice', 'float', 'big']))
    ranges = []
    first_lo = draw(st.integers(0, max(nlev - 1, 0)))
    first_hi = draw(st.integers(first_lo, nlev - 1))
    ranges.append((first_lo, first_hi))
    for _ in range(n - 1):
        p_lo, p_hi = ranges[draw(st.integers(0, len(ranges) - 1))]
        anchor = draw(st.integers(p_lo, p_hi))
        lo = draw(st.integers(max(0, anchor - 6), anchor))
        hi = draw(st.integers(anchor, min(nlev - 1, anchor + 6)))
        ranges.append((lo, hi))
    slope = draw(st.sampled_from([-3600.0, -600.0, -1.0, 2.5]))
    table = {}
    for sid, (lo, hi) in enumerate(ranges):
        shift = draw(st.integers(-4000, 4000)) / 8.0
        ragged = draw(st.booleans())
        for level in range(lo, hi + 1):
            if ragged and level not in (lo, hi) and draw(
                    st.integers(0, 3)) == 0:
                continue
            if value_kind == 'lattice':
                noise = draw(st.integers(-16, 16)) / 8.0
                c = slope * level + shift + noise
            elif value_kind == 'float':
                c = slope * level + shift + draw(st.floats(-5.0, 5.0))
            else:
                c = (slope * level + shift) * 250.0 + draw(
                    st.floats(-1e3, 1e3))
            table.setdefault(str(level), {})[str(sid)] = c
    # connectivity is by shared *listed* levels: anchor levels are always
    # kept for the ends; re-add the anchor of each series explicitly
    perts = [draw(st.lists(st.floats(-1.0, 1.0), min_size=n, max_size=n))
             for _ in range(3)]
    relabel = draw(st.permutations(range(n)))
    return {'table': table, 'perturbations': perts, 'relabel': list(relabel)}


BIG_SHAPES = [(32, 512), (32, 513), (29, 565), (40, 500), (25, 1400),
              (64, 1024), (12, 1366), (130, 127)]


@st.composite
def big_mapping_cases(draw):
    """Long records on fine grids: tens of thousands of (level, series)
    equations in one fit (the sample data reach 3526).  The table is a
    function of a few drawn numbers so the case stays small."""
    n, nlev = draw(st.sampled_from(BIG_SHAPES))
    return {
        'big': {'n': n, 'nlev': nlev,
                'slope': draw(st.sampled_from([-3600.0, -600.0, -1.0, 2.5])),
                'shifts': [draw(st.integers(-4000, 4000)) / 8.0
                           for _ in range(n)],
                'trim': draw(st.sampled_from([0, 0, 3, 4])),
                'salt': draw(st.integers(0, 1000))},
        'perturbations': [draw(st.lists(st.floats(-1.0, 1.0), min_size=n,
                                        max_size=n)) for _ in range(2)],
        'relabel': list(draw(st.permutations(range(n)))),
    }


@st.composite
def huge_mapping_cases(draw):
    """One fit whose dense design matrix passes half a gigabyte (168,000
    equations x 419 unknowns): several years of record on a 1 mm grid.
    About ten seconds and 0.6 GB per evaluation."""
    n, nlev = 420, 400
    return {
        'big': {'n': n, 'nlev': nlev,
                'slope': draw(st.sampled_from([-3600.0, -600.0])),
                'shifts': [draw(st.integers(-4000, 4000)) / 8.0
                           for _ in range(n)],
                'trim': 0, 'salt': draw(st.integers(0, 1000)),
                # a chain: interval s covers the 400 levels from s*stride
                # on, so far-apart intervals are linked only through many
                # intermediaries (as the pieces of a long record are)
                'stride': draw(st.sampled_from([13, 40, 100, 0]))},
        'perturbations': [draw(st.lists(st.floats(-1.0, 1.0), min_size=n,
                                        max_size=n))],
        'relabel': list(range(n)),
        'huge': True,
    }


def expand_big(big):
    n, nlev = big['n'], big['nlev']
    table = {}
    for sid in range(n):
        lo = hi = None
        if big['trim']:
            lo = (sid * 37 + big['salt']) % (nlev // big['trim'])
            hi = nlev - 1 - (sid * 53 + big['salt']) % (nlev // big['trim'])
        first = sid * big.get('stride', 0)
        for level in range(first, first + nlev):
            if lo is not None and not lo <= level <= hi:
                continue
            noise = ((level * 7919 + sid * 104729 + big['salt']) % 65
                     - 32) / 8.0
            # (every interval keeps its own clock, started at its first
            # level, as the pieces of a record do: with a stride the
            # offsets to be found grow along the chain)
            table.setdefault(level, {})[sid] = (
                big['slope'] * (level - first) + big['shifts'][sid] + noise)
    return table


def table_of(case_table):
    return {int(k): {int(s): float(c) for s, c in row.items()}
            for k, row in case_table.items()}


def connected(table):
    comps = gen_series.components(
        {k: row for k, row in table.items() if len(row) >= 2})
    fitted = set().union(*[c[0] for c in comps]) if comps else set()
    return len(comps) == 1, fitted


def check_mapping(case):
    table = (expand_big(case['big']) if 'big' in case
             else table_of(case['table']))
    ok, fitted = connected(table)
    if not ok:
        raise Reject('generated overlap graph not connected')
    fo = tree.mod('fit_offsets').find_offsets
    mapping = {k: [(s, c) for s, c in sorted(row.items())]
               for k, row in table.items()}
    series_ids, offsets = guarded(fo, copy.deepcopy(mapping))
    if sorted(series_ids) != sorted(fitted):
        raise Violation('fitted-series-set-differs',
                        '{} vs {}'.format(sorted(series_ids), sorted(fitted)))
    off = {s: float(o) for s, o in zip(series_ids, offsets)}
    verify_minimiser(table, off, case['perturbations'] + _unit_vectors(
        len(off)), independent=not case.get('huge'))
    if case.get('huge'):
        return {'nontrivial', 'design-matrix>512MiB'}
    # a different series serves as the internal zero: relabel ids
    relabel = {s: case['relabel'][s] + 100 for s in sorted(
        {s for row in table.values() for s in row})}
    mapping2 = {k: [(relabel[s], c) for s, c in sorted(row.items())]
                for k, row in table.items()}
    ids2, offsets2 = guarded(fo, copy.deepcopy(mapping2))
    back = {v: k for k, v in relabel.items()}
    off2 = {back[s]: float(o) for s, o in zip(ids2, offsets2)}
    diffs = [off2[s] - off[s] for s in off]
    scale = max([abs(c) for row in table.values() for c in row.values()]
                + [1.0])
    if set(off2) != set(off) or max(diffs) - min(diffs) > 1e-7 * scale:
        raise Violation('offsets-depend-on-reference-series', repr(diffs))
    labels = set()
    n = len(off)
    singles = any(len(row) == 1 for row in table.values())
    pairs_sharing = set()
    for row in table.values():
        ids = sorted(row)
        for i, a in enumerate(ids):
            for b in ids[i + 1:]:
                pairs_sharing.add((a, b))
    complete = len(pairs_sharing) == n * (n - 1) // 2
    if singles:
        labels.add('single-series-level')
    if not complete:
        labels.add('incomplete-overlap')
    if n >= 3 and singles and not complete:
        labels.add('nontrivial')
    if 'big' in case:
        equations = sum(len(row) for row in table.values() if len(row) > 1)
        labels.add('equations>16384' if equations > 16384
                   else 'equations<=16384')
        labels.add('nontrivial')
    return labels


def _unit_vectors(n):
    out = []
    for i in range(min(n, 4)):
        v = [0.0] * n
        v[i] = 1.0
        out.append(v)
        out.append([-x for x in v])
    return out


# ------------------------------------------------------------ part (b)

@st.composite
def series_cases(draw):
    h = draw(st.sampled_from(gen_series.STEPS))
    n = draw(st.integers(2, 8))
    shape = draw(st.sampled_from(['falling', 'falling', 'bumpy', 'rising',
                                  None]))
    group = draw(gen_series.connected_group(h, n, shape=shape))
    perts = [draw(st.lists(st.floats(-1.0, 1.0), min_size=n, max_size=n))
             for _ in range(2)]
    return {'h': h, 'series': group, 'perturbations': perts}


def run_gsto(collection, h, arrays=None):
    """arrays: optional list of (x, y) ndarray pairs to pass instead of
    fresh ones (a caller keeps its interval objects between two calls)."""
    fn = tree.mod('fit_offsets').get_series_time_offsets
    series = arrays or [(np.array(s['x'], dtype='float64'),
                         np.array(s['y'], dtype='float64'))
                        for s in collection]
    return guarded(fn, series, h)


def check_series(case):
    h = case['h']
    table = gen_series.crossing_table(case['series'], h)
    multi = {k: row for k, row in table.items() if len(row) >= 2}
    comps = gen_series.components(table)
    if len(comps) != 1 or not multi:
        raise Reject('collection not connected through shared levels')
    indices, offsets, mapping = run_gsto(case['series'], h)
    fitted = set().union(*[set(r) for r in multi.values()])
    if sorted(indices) != sorted(fitted):
        raise Violation('fitted-series-set-differs',
                        '{} vs {}'.format(sorted(indices), sorted(fitted)))
    off = {int(i): float(o) for i, o in zip(indices, offsets)}
    verify_minimiser(multi, off, case['perturbations'] + _unit_vectors(
        len(off)))
    # the returned mapping is the crossing table of the fitted levels
    got = {int(k): {int(s): float(c) for s, c in row}
           for k, row in mapping.items()}
    if {k: set(v) for k, v in got.items()} != {
            k: set(v) for k, v in multi.items()}:
        raise Violation('returned-mapping-levels-differ', '')
    for k, row in multi.items():
        for s, c in row.items():
            span = case['series'][s]['x'][-1] - case['series'][s]['x'][0]
            if abs(got[k][s] - c) > 1e-9 * span + 1e-9:
                raise Violation('returned-mapping-crossing-differs',
                                repr((k, s, got[k][s], c)))
    labels = set()
    n = len(off)
    singles = any(len(row) == 1 for row in table.values())
    pairs_sharing = set()
    for row in multi.values():
        ids = sorted(row)
        for i, a in enumerate(ids):
            for b in ids[i + 1:]:
                pairs_sharing.add((a, b))
    if n >= 3 and singles and len(pairs_sharing) < n * (n - 1) // 2:
        labels.add('nontrivial')
    return labels


PARTS = [
    Part('find_offsets', check_mapping,
         strategy=lambda tier: mapping_cases(),
         budget={'quick': 150, 'thorough': 2500},
         describe='find_offsets on generated head mappings'),
    Part('find_offsets_big', check_mapping,
         strategy=lambda tier: big_mapping_cases(),
         budget={'quick': 2, 'thorough': 12},
         describe='find_offsets on 16,000-65,000 equations in one fit'),
    Part('find_offsets_huge', check_mapping,
         strategy=lambda tier: huge_mapping_cases(),
         budget={'quick': 1, 'thorough': 1},
         shards={'quick': 1, 'thorough': 2},
         describe='find_offsets on 168,000 equations x 419 unknowns'),
    Part('series', check_series, strategy=lambda tier: series_cases(),
         budget={'quick': 100, 'thorough': 1500},
         describe='get_series_time_offsets on generated series'),
]


# ------------------------------------------------------------- table level

from vfw import gen_truth, model_master  # noqa: E402
from vfw.pipeline import Workflow  # noqa: E402


@st.composite
def table_cases(draw, tier):
    record = draw(gen_truth.truth_records(noise=True, min_storms=4,
                                          max_storms=9))
    record['grid'] = draw(st.sampled_from(['1.0', '0.5', '2.0', '0.25']))
    record['perturbations'] = [
        draw(st.lists(st.floats(-1.0, 1.0), min_size=6, max_size=6))
        for _ in range(2)]
    record['regrid'] = draw(st.sampled_from([None, '0.5', '2.0', '0.25']))
    return record


def check_tables(case):
    h = float(case['grid'])
    labels = set()
    with Workflow(case) as wf:
        guarded(wf.load)
        guarded(wf.classify)
        guarded(wf.zeta_grid, case['grid'])
        connection = wf.connect()
        try:
            rises, _ = model_master.rise_series(connection)
            recs = model_master.recession_series(connection)
            plans = {
                'rise': model_master.main_body(
                    model_master.crossing_table(rises, h)[0])[2],
                'recession': model_master.main_body(
                    model_master.crossing_table(recs, h)[0])[2]}
        finally:
            connection.close()
        done = []
        for which, run in (('rise', wf.rise), ('recession', wf.recession)):
            if plans[which]:
                guarded(run)
                done.append(which)
        if not done:
            raise Reject('both main bodies ambiguous')
        if case.get('regrid'):
            # a second pass on another grid: refused today (singleton and
            # primary keys); should the package ever carry it out, the
            # tables it leaves must again be a least-squares solution
            for attempt in (lambda: wf.zeta_grid(case['regrid']),
                            wf.rise, wf.recession):
                try:
                    attempt()
                except Exception:  # pylint: disable=broad-except
                    labels.add('second-pass-step-refused')
                else:
                    labels.add('second-pass-step-accepted')
        connection = wf.connect()
        try:
            for which in done:
                if which == 'rise':
                    offsets = dict(connection.execute(
                        'SELECT start_epoch, rain_depth_offset_mm '
                        'FROM rising_interval'))
                    rows = connection.execute(
                        'SELECT zeta_number, start_epoch, '
                        'mean_crossing_depth_mm FROM rising_interval_zeta'
                    ).fetchall()
                else:
                    offsets = dict(connection.execute(
                        'SELECT start_epoch, time_offset_s '
                        'FROM recession_interval'))
                    rows = connection.execute(
                        'SELECT zeta_number, start_epoch, '
                        'mean_crossing_time FROM recession_interval_zeta'
                    ).fetchall()
                table = {}
                for k, start, c in rows:
                    table.setdefault(k, {})[start] = c
                strays = {start for row in table.values() for start in row
                          } - set(offsets)
                if strays:
                    raise Violation(
                        'crossing-rows-without-interval-offset:' + which,
                        'intervals {} have crossing rows but no offset '
                        'row'.format(sorted(strays)[:4]))
                if any(len(row) < 2 for row in table.values()):
                    raise Violation(
                        'table-level-crossed-by-single-interval:' + which,
                        'a stored level has one interval only')
                try:
                    verify_minimiser(
                        table, {s: float(o) for s, o in offsets.items()},
                        case['perturbations'] + _unit_vectors(len(offsets)))
                except Violation as vio:
                    raise Violation(vio.signature + ':' + which + '-table',
                                    vio.detail) from vio
                if len(offsets) >= 3:
                    labels.add(which + '>=3-intervals')
        finally:
            connection.close()
    if {'rise>=3-intervals', 'recession>=3-intervals'} & labels:
        labels.add('nontrivial')
    return labels


PARTS.append(
    Part('tables', check_tables, strategy=lambda tier: table_cases(tier),
         budget={'quick': 15, 'thorough': 150},
         describe='stationarity of the tables written by rise / recession'))
