"""C11 -- timestamps are converted exactly and bad input is refused."""

import datetime
import io
import re
import sqlite3

import pytz
from hypothesis import strategies as st

from vfw import dataset, tree, gen_records, model_load
from vfw.core import Part, Violation, Reject, guarded

LEVEL = 'exploration'
RULE = (
    '(a) zone x instant: zones from pytz.all_timezones (quick: sampled; '
    'thorough: every zone, 40 instants each), UTC instants at whole seconds '
    '1880-2100 with over-sampling of +-2 h around the zone\'s own transitions, '
    'the local-mean-time era and 30/45-minute zones, with the process itself '
    'running in UTC or in another zone (TZ); the local text is by '
    'construction the rendering of the chosen instant, so it exists. Oracle: '
    'round trip - the epoch produced by generate_timestamped_rows, rendered '
    'back in the zone, gives the original text (either fold accepted); for '
    'fixed-offset zones (UTC, Etc/GMT+-k) additionally epoch = naive UTC '
    'seconds - offset by integer arithmetic without pytz. (b) end to end: a '
    'uniform series rendered in a DST zone is loaded and grid_time must '
    'equal the chosen instants. (c) malformed input: an interior rain row '
    'removed / displaced / duplicated with an offset / repeated at the same instant with another value; an ET row missing for '
    'one grid step or stamped late inside its step; a second load into a populated file: load must raise and '
    'a re-load must leave every table unchanged. Non-trivial: zone with a '
    'transition within a day of the instant or an LMT-era instant (a); each '
    'malformed kind (c); distinct = SHA-1 of the case.'
)
ASSUMPTIONS = [
    'pytz renders instants correctly (round-trip oracle); zoneinfo is '
    'deliberately not consulted (tz database vintages may differ)',
]

UTC = datetime.timezone.utc
EPOCH_LO = -2840140800  # 1880-01-01
EPOCH_HI = 4102444800   # 2100-01-01
ALL_ZONES = list(pytz.all_timezones)
ODD_ZONES = ['Asia/Kolkata', 'Asia/Kathmandu', 'Australia/Eucla',
             'Pacific/Chatham', 'America/St_Johns', 'Australia/Lord_Howe',
             'Africa/Lagos', 'Africa/Monrovia', 'Europe/Amsterdam',
             'Europe/Dublin', 'America/Caracas', 'Asia/Tehran',
             'Pacific/Apia', 'Pacific/Kiritimati', 'Antarctica/Troll']


def transitions_of(name):
    tz = pytz.timezone(name)
    times = getattr(tz, '_utc_transition_times', None) or []
    out = []
    for t in times:
        if t.year < 1800:
            continue
        out.append(int((t - datetime.datetime(1970, 1, 1)).total_seconds()))
    return out


@st.composite
def instant_cases(draw):
    name = draw(st.one_of(st.sampled_from(ALL_ZONES),
                          st.sampled_from(ODD_ZONES),
                          st.sampled_from(['UTC', 'Etc/GMT-7', 'Etc/GMT+5',
                                           'Etc/GMT-14', 'Etc/GMT+12'])))
    trans = [t for t in transitions_of(name) if EPOCH_LO < t < EPOCH_HI]
    mode = draw(st.sampled_from(['any', 'transition', 'transition', 'lmt']))
    if mode == 'transition' and trans:
        e = draw(st.sampled_from(trans)) + draw(st.integers(-7200, 7200))
    elif mode == 'lmt' and trans:
        e = min(trans) - draw(st.integers(1, 20 * 365 * 86400))
    else:
        e = draw(st.integers(EPOCH_LO, EPOCH_HI))
    e = max(EPOCH_LO, min(EPOCH_HI, e))
    # further rows of the same file: same zone, up to a day around the first
    more = draw(st.lists(st.integers(-86400, 86400), max_size=4))
    return {'tz': name, 'epoch': e,
            'more': sorted(max(EPOCH_LO, min(EPOCH_HI, e + d))
                           for d in more),
            # the zone of the machine running the command is not the zone
            # declared for the data
            'process_tz': draw(st.sampled_from(
                [None, None, 'Asia/Tokyo', 'America/New_York',
                 'Australia/Adelaide']))}


def fixed_offset_seconds(name):
    if name in ('UTC', 'Etc/UTC', 'Etc/GMT', 'GMT'):
        return 0
    m = re.fullmatch(r'Etc/GMT([+-])(\d+)', name)
    if m:
        hours = int(m.group(2))
        return -hours * 3600 if m.group(1) == '+' else hours * 3600
    return None


def naive_seconds(text):
    dt = datetime.datetime.strptime(text, dataset.FMT)
    days = dt.toordinal() - datetime.date(1970, 1, 1).toordinal()
    return days * 86400 + dt.hour * 3600 + dt.minute * 60 + dt.second


def check_instant(case):
    import os
    import time
    process_tz = case.get('process_tz')
    if not process_tz:
        return _check_instant(case)
    saved = os.environ.get('TZ')
    os.environ['TZ'] = process_tz
    time.tzset()
    try:
        labels = _check_instant(case)
    finally:
        if saved is None:
            os.environ.pop('TZ', None)
        else:
            os.environ['TZ'] = saved
        time.tzset()
    labels.add('process-zone-not-utc')
    return labels


def _check_instant(case):
    load_mod = tree.mod('load')
    tz = pytz.timezone(case['tz'])
    e = case['epoch']
    text = dataset.render_time(e, tz)
    rows = guarded(lambda: list(load_mod.generate_timestamped_rows(
        [[text, '1.5']], tz)))
    if len(rows) != 1 or rows[0][1:] != ['1.5']:
        raise Violation('row-payload-changed', repr(rows))
    got = rows[0][0]
    if not isinstance(got, int):
        raise Violation('epoch-not-integer', repr(got))
    back = dataset.render_time(got, tz)
    if back != text:
        raise Violation(
            'timestamp-round-trip',
            '{} in {} -> {} -> {}'.format(text, case['tz'], got, back))
    offset = fixed_offset_seconds(case['tz'])
    labels = set()
    # several rows in one call (one file): each must round-trip on its own
    extra = [int(v) for v in case.get('more', [])]
    if extra:
        texts = [dataset.render_time(v, tz) for v in [e] + extra]
        many = guarded(lambda: list(load_mod.generate_timestamped_rows(
            [[t, '0'] for t in texts], tz)))
        if len(many) != len(texts):
            raise Violation('row-count-changed', repr(len(many)))
        for t, row in zip(texts, many):
            if dataset.render_time(row[0], tz) != t:
                raise Violation(
                    'timestamp-round-trip:row-in-sequence',
                    '{} in {} -> {} -> {} (rows {})'.format(
                        t, case['tz'], row[0],
                        dataset.render_time(row[0], tz), texts))
        labels.add('several-rows')
    if offset is not None:
        want = naive_seconds(text) - offset
        if got != want or got != e:
            raise Violation('fixed-offset-epoch',
                            '{} in {}: got {} expected {}'.format(
                                text, case['tz'], got, want))
        labels.add('fixed-offset')
    if got != e:
        labels.add('fold-other-instant')
    trans = transitions_of(case['tz'])
    if trans and e < min(trans):
        labels.add('lmt-era')
        labels.add('nontrivial')
    if any(abs(e - t) <= 86400 for t in trans):
        labels.add('near-transition')
        labels.add('nontrivial')
    return labels


def enum_zones(tier, shard, nshards):
    """Thorough tier: every zone, 40 deterministic instants each."""
    if tier != 'thorough':
        return
    for zi, name in enumerate(ALL_ZONES):
        if zi % nshards != shard:
            continue
        trans = [t for t in transitions_of(name) if EPOCH_LO < t < EPOCH_HI]
        picks = []
        for k in range(20):
            picks.append(EPOCH_LO + (EPOCH_HI - EPOCH_LO) * (2 * k + 1) // 40
                         + 7 * zi)
        step = max(1, len(trans) // 10)
        for t in trans[::step][:10]:
            picks.extend([t - 1, t + 1799])
        while len(picks) < 40:
            picks.append(EPOCH_LO + 86400 * 365 * len(picks) + zi)
        for e in picks[:40]:
            yield {'tz': name, 'epoch': int(e)}


# ---------------------------------------------------------- (b) end to end

DST_ZONES = ['Europe/Berlin', 'America/New_York', 'Australia/Sydney',
             'America/St_Johns', 'Asia/Tehran', 'Pacific/Chatham',
             'Europe/Dublin', 'America/Sao_Paulo']


@st.composite
def series_cases(draw):
    name = draw(st.sampled_from(DST_ZONES + ['Asia/Kolkata', 'Africa/Lagos']))
    dt = draw(st.sampled_from([600, 900, 1800, 3600]))
    trans = [t for t in transitions_of(name) if 0 < t < EPOCH_HI]
    near = draw(st.booleans()) and bool(trans)
    if near:
        t0 = draw(st.sampled_from(trans)) - draw(st.integers(0, 12)) * dt
        t0 -= t0 % dt
    else:
        t0 = 1388534400 + draw(st.integers(-100000, 100000)) * dt
    n = draw(st.integers(3, 16))
    rain = [[i, draw(st.integers(0, 64)) / 64.0] for i in range(n)]
    wl = [[i * dt, draw(st.integers(-80, 80)) / 8.0] for i in range(n + 1)]
    et = [[i, 0.125] for i in range(-1, n + 2)]
    return {'dt': dt, 't0': t0, 'tz': name, 'rain': rain, 'et': et,
            'wl': wl}


def check_series(case):
    texts = dataset.render_files(case)
    for text in texts.values():
        stamps = [line.split(',')[0] for line in text.splitlines()[1:]]
        if len(set(stamps)) != len(stamps):
            raise Reject('series spans a fold (two instants, one text)')
        zone = pytz.timezone(case['tz'])
        for stamp in stamps:
            try:
                zone.localize(datetime.datetime.strptime(
                    stamp, dataset.FMT), is_dst=None)
            except pytz.exceptions.AmbiguousTimeError as exc:
                # the text has two valid readings; the input format cannot
                # say which one was meant
                raise Reject('series touches a fold (ambiguous text)') \
                    from exc
    connection = guarded(dataset.load_memory, case, texts)
    try:
        got = [e for (e,) in connection.execute(
            'SELECT epoch FROM grid_time ORDER BY epoch')]
        want = model_load.expected(case)['grid']
        if got != want:
            raise Violation('grid-instants-shifted',
                            'zone {}: got {} want {}'.format(
                                case['tz'], got[:6], want[:6]))
        (zone,) = connection.execute(
            'SELECT source_time_zone FROM time_grid').fetchone()
        if zone != case['tz']:
            raise Violation('zone-not-recorded', repr(zone))
    finally:
        connection.close()
    labels = {'dst-zone' if case['tz'] in DST_ZONES else 'fixed-zone'}
    trans = transitions_of(case['tz'])
    lo, hi = want[0], want[-1]
    if any(lo - 86400 <= t <= hi + 86400 for t in trans):
        labels.add('nontrivial')
        labels.add('near-transition')
    return labels


# ------------------------------------------------------------ (c) malformed

KINDS = ['rain-row-removed', 'rain-row-displaced', 'rain-row-duplicated',
         'rain-row-repeated', 'et-row-missing', 'et-row-displaced', 'reload']


@st.composite
def malformed_cases(draw):
    record = draw(gen_records.free_records(max_steps=14, allow_gaps=False,
                                           min_steps=4))
    kind = draw(st.sampled_from(KINDS))
    return {'record': record, 'kind': kind,
            'pick': draw(st.integers(0, 1000)),
            'delta': draw(st.sampled_from([1, 60, 299, -1, -120]))}


def dump_counts(connection):
    out = {}
    for (name,) in connection.execute(
            "SELECT name FROM sqlite_master WHERE type='table' "
            "ORDER BY name").fetchall():
        out[name] = connection.execute(
            'SELECT count(*), total(rowid) FROM "{}"'.format(name)).fetchone()
    return out


def check_malformed(case):
    record = dict(case['record'])
    kind = case['kind']
    try:
        want = model_load.expected(record)
    except model_load.Refused as ref:
        raise Reject('base record outside domain') from ref
    dt, t0 = record['dt'], record['t0']
    grid_idx = [(t - t0) // dt for t in want['grid'][:-1]]
    load_mod = tree.mod('load')
    # a displacement stays inside the victim's own step (steps of 90 s)
    delta = (abs(case['delta']) % dt or 1) * (1 if case['delta'] > 0 else -1)

    def attempt(rec, connection=None):
        texts = dataset.render_files(rec)
        connection = connection or sqlite3.connect(':memory:')
        try:
            load_mod.load_data(
                connection=connection,
                precipitation_data_file=io.StringIO(texts['precipitation']),
                evapotranspiration_data_file=io.StringIO(
                    texts['evapotranspiration']),
                water_level_data_file=io.StringIO(texts['water_level']),
                time_zone_name=rec['tz'])
        except Exception as exc:  # pylint: disable=broad-except
            connection.rollback()
            return connection, exc
        return connection, None

    if kind == 'reload':
        connection, error = attempt(record)
        if error is not None:
            connection.close()
            raise Violation('valid-input-refused', repr(error))
        before = dump_counts(connection)
        other = dict(record)
        other['rain'] = [[i, v + 1.0] for i, v in record['rain']]
        connection, error = attempt(other, connection)
        after = dump_counts(connection)
        connection.close()
        if error is None:
            raise Violation('reload-accepted', 'second load did not raise')
        if before != after:
            raise Violation('reload-changed-data', repr((before, after)))
        return {kind, 'nontrivial'}
    if kind.startswith('rain-row'):
        interior = grid_idx[1:-1]
        if not interior or (kind == 'rain-row-removed'
                            and len(grid_idx) < 4):
            # (removing the middle of three leaves two: still uniform)
            raise Reject('no interior rain row')
        victim = interior[case['pick'] % len(interior)]
        rows = [list(r) for r in record['rain']]
        if kind == 'rain-row-removed':
            rows = [r for r in rows if r[0] != victim]
            record['rain'] = rows
        else:
            # express a displaced / extra row through a fractional index
            frac = delta / dt
            if kind == 'rain-row-displaced':
                rows = [[r[0] + frac, r[1]] if r[0] == victim else r
                        for r in rows]
            elif kind == 'rain-row-repeated':
                # one timestamp twice (overlapping logger downloads) with
                # conflicting values: steps dt, 0, dt
                at = [i for i, r in enumerate(rows) if r[0] == victim][0]
                rows.insert(at + (case['pick'] % 2),
                            [victim, rows[at][1] + 0.5])
            else:
                rows.append([victim + frac, 0.5])
            record['rain'] = rows
    elif kind == 'et-row-missing':
        victim = grid_idx[case['pick'] % len(grid_idx)]
        record['et'] = [r for r in record['et'] if r[0] != victim]
    elif kind == 'et-row-displaced':
        # the ET record of one grid step is stamped a little late: ET is
        # missing AT the grid time although a record lies inside the step
        victim = grid_idx[case['pick'] % len(grid_idx)]
        frac = abs(delta) / dt
        record['et'] = [[r[0] + frac, r[1]] if r[0] == victim else r
                        for r in record['et']]
    connection, error = attempt(record)
    connection.close()
    if error is None:
        raise Violation('malformed-input-accepted:' + kind, '')
    check_load_after_refusal(case['record'], want)
    return {kind, 'nontrivial'}


AFTER_ZONES = {'UTC': 0, 'Etc/GMT-7': 25200, 'Etc/GMT+5': -18000,
               'Etc/GMT-12': 43200}


def check_load_after_refusal(record, want):
    """The process goes on after a refused load (a notebook, a batch over
    sites): the SAME texts, declared in another fixed-offset zone, are then
    loaded into a fresh dataset and must give the instants those texts
    denote in that zone."""
    if record['tz'] not in AFTER_ZONES:
        return
    other = [z for z in sorted(AFTER_ZONES) if z != record['tz']][
        record['t0'] % 3]
    texts = dataset.render_files(record)
    connection = sqlite3.connect(':memory:')
    try:
        guarded(
            tree.mod('load').load_data,
            connection=connection,
            precipitation_data_file=io.StringIO(texts['precipitation']),
            evapotranspiration_data_file=io.StringIO(
                texts['evapotranspiration']),
            water_level_data_file=io.StringIO(texts['water_level']),
            time_zone_name=other)
        got = [e for (e,) in connection.execute(
            'SELECT epoch FROM grid_time ORDER BY epoch')]
    finally:
        connection.close()
    shift = AFTER_ZONES[record['tz']] - AFTER_ZONES[other]
    expected = [e + shift for e in want['grid']]
    if got != expected:
        raise Violation(
            'instants-wrong-after-a-refused-load',
            'texts of {} declared as {} after a refused load: grid {} '
            'expected {}'.format(record['tz'], other, got[:4], expected[:4]))


PARTS = [
    Part('instants', check_instant, strategy=lambda tier: instant_cases(),
         budget={'quick': 500, 'thorough': 10000},
         describe='generate_timestamped_rows round trip, zone x instant'),
    Part('all_zones', check_instant, enumerate=enum_zones,
         shards={'quick': 1, 'thorough': 16},
         describe='every pytz zone x 40 instants (thorough tier only)'),
    Part('series', check_series, strategy=lambda tier: series_cases(),
         budget={'quick': 60, 'thorough': 1000},
         describe='end to end: grid_time equals the chosen instants'),
    Part('malformed', check_malformed,
         strategy=lambda tier: malformed_cases(),
         budget={'quick': 100, 'thorough': 1500},
         describe='refusal of the three malformed kinds'),
]
