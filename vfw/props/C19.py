"""C19 -- calibration files and simulation output describe the same
problem."""

import copy
import io
import sqlite3

import yaml
from hypothesis import strategies as st

from vfw import gen_truth, gen_params, model_master, model_pest, tree
from vfw import dataset
from vfw.core import Part, Violation, Reject, guarded, load_output_yaml
from vfw.pipeline import Workflow
from vfw.props.C06 import read_curve

LEVEL = 'exploration'
RULE = (
    'Part files: G-truth datasets (both curves assembled, curvature set) x '
    'both parameterisations with 4-9 specific-yield knots and 2-7 '
    'conductivity knots (a quarter of the files mix the kinds of the two sections; for those only the rise files, which concern specific yield alone, are produced); the literal (non-placeholder) parameter values are '
    'replaced by wild finite doubles incl. ones whose repr has an exponent '
    '(5e-05, 1e+16). All six files (rise|curves x tpl|ins|pst) and the four '
    'simulate outputs are produced through the CLI and read by a model of '
    'PEST\'s readers (vfw/model_pest.py). Oracle: NPAR/NOBS/NPARGP/NOBSGP equal '
    'the section line counts; control-file parameter names equal the '
    'template placeholders as case-folded sets; observation k parses back '
    '(float) to the bit-identical master-curve value of the k-th level (rise '
    'ascending, then recession highest first) and the k-th value the '
    'instruction model extracts from the --observations output belongs to '
    'the same level and equals the number printed on that line exactly (which '
    'in turn equals the simulated value of the table output to 1e-14 '
    'relative); filling each '
    'placeholder with a full-precision rendering of the original value and '
    'loading the result with yaml.safe_load gives numerically the original '
    'parameter tree. Part values: arbitrary finite master-curve values '
    'written into a small dataset, `simulate rise --observations` through '
    'the rise instruction file, extracted value == printed value; part many_values has 9999-12000 levels (observation names e1 .. e12000), names compared between control and instruction file. '
    'Non-trivial: >= 2 recession levels and a literal with an exponent in '
    'its repr (files); a printed value longer than 20 characters (values); '
    'distinct = SHA-1 of the case.'
)
ASSUMPTIONS = ['model of PEST readers written from the PEST manual',
               'PEST writes a parameter with full precision into the '
               'placeholder width']

WILD = [5e-05, 1e+16, 1e-07, 1.2345678901234568e+17, -3e-06, 1e+22,
        2.5e-10, 0.1, 7.0, 1234.5]


def render_full(value):
    """Lossless, YAML-1.1-safe text of a number (an ideal PEST writer)."""
    if isinstance(value, int):
        return str(value)
    text = repr(float(value))
    if 'e' in text and '.' not in text.split('e')[0]:
        mantissa, exponent = text.split('e')
        text = '{}.0e{}'.format(mantissa, exponent)
    return text


@st.composite
def wild_value(draw, positive=False):
    v = draw(st.one_of(
        st.sampled_from(WILD),
        st.floats(allow_nan=False, allow_infinity=False, width=64)))
    if positive:
        v = abs(v) or 1.0
    return float(v)


@st.composite
def file_cases(draw, tier):
    record = draw(gen_truth.truth_records(noise=False, min_storms=4,
                                          max_storms=7))
    record['grid'] = draw(st.sampled_from(['1.0', '2.0', '0.5', '5.0']))
    kind = draw(st.sampled_from(['spline', 'peatclsm']))
    levels = [v for _, v in record['wl']]
    lo, hi = min(levels), max(levels)
    if kind == 'spline':
        sy = draw(gen_params.spline_sy(min_gap=5.0, positive=True))
        z = sy['zeta_knots_mm']
        shift = (lo - 10.0) - z[0]
        sy['zeta_knots_mm'] = [round(v + shift, 4) for v in z]
        T = draw(gen_params.spline_T(min_gap=5.0, min_n=2, max_n=7))
        zt = T['zeta_knots_mm']
        shift_t = (hi + 20.0) - zt[-1]
        T['zeta_knots_mm'] = [round(v + shift_t, 4) for v in zt]
    else:
        sy = draw(gen_params.peatclsm_sy())
        T = draw(gen_params.peatclsm_T())
        T['zeta_max_cm'] = round(hi / 10 + 5.0, 3)
    record['parameters'] = {'specific_yield': sy, 'transmissivity': T}
    # wild literals for the template checks
    wild = copy.deepcopy(record['parameters'])
    if kind == 'spline':
        wt = wild['transmissivity']
        wt['K_knots_km_d'] = [draw(wild_value(positive=True))
                              for _ in wt['K_knots_km_d']]
        wt['minimum_transmissivity_m2_d'] = draw(wild_value(positive=True))
        if draw(st.booleans()):
            wt['zeta_knots_mm'] = sorted(
                draw(wild_value()) for _ in wt['zeta_knots_mm'])
            wild['specific_yield']['zeta_knots_mm'] = sorted(
                draw(wild_value())
                for _ in wild['specific_yield']['zeta_knots_mm'])
        wild['specific_yield']['sy_knots'] = [
            draw(wild_value()) for _ in wild['specific_yield']['sy_knots']]
    else:
        wt = wild['transmissivity']
        wt['Ksmacz0'] = draw(wild_value(positive=True))
        wt['alpha'] = draw(st.one_of(st.just(3), wild_value(positive=True)))
        wt['zeta_max_cm'] = draw(wild_value())
        for key in ('sd', 'theta_s', 'b', 'psi_s'):
            wild['specific_yield'][key] = draw(wild_value())
    if draw(st.integers(0, 3)) == 0:
        # the two sections choose their kind independently; the rise files
        # only concern specific yield (the curves files are not asked for)
        record['mixed'] = True
        for params, is_wild in ((record['parameters'], False), (wild, True)):
            if kind == 'spline':
                other = draw(gen_params.peatclsm_T())
                other['zeta_max_cm'] = round(hi / 10 + 5.0, 3)
                if is_wild:
                    other['Ksmacz0'] = draw(wild_value(positive=True))
                    other['zeta_max_cm'] = draw(wild_value())
            else:
                other = draw(gen_params.spline_T(min_gap=5.0, min_n=2,
                                                 max_n=7))
                zt = other['zeta_knots_mm']
                other['zeta_knots_mm'] = [
                    round(v + (hi + 20.0) - zt[-1], 4) for v in zt]
                if is_wild:
                    other['minimum_transmissivity_m2_d'] = draw(
                        wild_value(positive=True))
            params['transmissivity'] = other
    record['wild_parameters'] = wild
    record['curvature'] = draw(st.sampled_from(['0.5', '2.36', '0']))
    return record


def flatten_numbers(tree_):
    out = []
    if isinstance(tree_, dict):
        for key in sorted(tree_):
            out.extend((('{}.{}'.format(key, k), v)
                        for k, v in flatten_numbers(tree_[key])))
    elif isinstance(tree_, list):
        for i, v in enumerate(tree_):
            out.extend((('{}.{}'.format(i, k), x)
                        for k, x in flatten_numbers(v)))
    else:
        out.append(('', tree_))
    return out


def placeholder_values(parameters, what):
    """case-folded placeholder name -> original value."""
    sy, T = parameters['specific_yield'], parameters['transmissivity']
    values = {}
    if sy['type'] == 'spline':
        for i, v in enumerate(sy['sy_knots'], start=1):
            values['sy_knot_{}'.format(i)] = v
        if what == 'curves':
            for i, v in enumerate(T['K_knots_km_d'], start=1):
                values['k_knot_{}'.format(i)] = v
            values['t_min'] = T['minimum_transmissivity_m2_d']
    else:
        for key in ('sd', 'theta_s', 'b', 'psi_s'):
            values[key] = sy[key]
        if what == 'curves':
            values['ksmacz0'] = T['Ksmacz0']
            values['alpha'] = T['alpha']
    return values


def check_template(tpl_text, pst_text, parameters, what):
    _, holders = model_pest.template_placeholders(tpl_text)
    names = [h['name'].lower() for h in holders]
    if len(set(names)) != len(names):
        raise Violation('template-placeholder-repeated', repr(names))
    sections = model_pest.control_sections(pst_text)
    counts = model_pest.control_counts(pst_text)
    par_lines = [l for l in sections['parameter data'] if l.strip()]
    obs_lines = [l for l in sections['observation data'] if l.strip()]
    pargp = [l for l in sections['parameter groups'] if l.strip()]
    obsgp = [l for l in sections['observation groups'] if l.strip()]
    for key, lines in (('NPAR', par_lines), ('NOBS', obs_lines),
                       ('NPARGP', pargp), ('NOBSGP', obsgp)):
        if counts[key] != len(lines):
            raise Violation(
                'control-count-mismatch:' + key,
                '{} declared {}, section has {} lines'.format(
                    key, counts[key], len(lines)))
    pst_names = [l.split()[0].lower() for l in par_lines]
    if sorted(pst_names) != sorted(names):
        raise Violation(
            'parameter-names-differ-from-placeholders',
            'control {} template {}'.format(sorted(pst_names), sorted(names)))
    groups = {l.split()[0].lower() for l in pargp}
    for l in par_lines:
        if l.split()[6].lower() not in groups:
            raise Violation('parameter-group-undeclared', l)
    obs_groups = {l.split()[0].lower() for l in obsgp}
    for l in obs_lines:
        if l.split()[3].lower() not in obs_groups:
            raise Violation('observation-group-undeclared', l)
    # fill and reload
    values = placeholder_values(parameters, what)
    try:
        filled = model_pest.fill_template(tpl_text, values, render_full)
    except OverflowError as exc:
        raise Violation('placeholder-narrower-than-double', str(exc)) from exc
    try:
        loaded = yaml.safe_load(filled)
    except yaml.YAMLError as exc:
        raise Violation('filled-template-not-yaml', str(exc)[:200]) from exc
    want = flatten_numbers(parameters)
    got = flatten_numbers(loaded)
    if [k for k, _ in want] != [k for k, _ in got]:
        raise Violation('filled-template-structure-differs',
                        repr(([k for k, _ in got], [k for k, _ in want])))
    for (key, a), (_, b) in zip(want, got):
        same = (a == b) if isinstance(a, str) or isinstance(b, str) else (
            float(a) == float(b))
        if isinstance(a, (int, float)) and isinstance(b, str):
            raise Violation(
                'template-literal-reloads-as-string',
                '{}: original {!r} reloads as the string {!r}'.format(
                    key, a, b))
        if not same:
            raise Violation('filled-template-value-differs',
                            '{}: {!r} vs {!r}'.format(key, a, b))
    return obs_lines


def check_files(case):
    h = float(case['grid'])
    labels = {case['parameters']['specific_yield']['type']}
    with Workflow(case) as wf:
        guarded(wf.load)
        guarded(wf.classify)
        guarded(wf.zeta_grid, case['grid'])
        connection = wf.connect()
        try:
            rises, _ = model_master.rise_series(connection)
            recs = model_master.recession_series(connection)
            ok = all(model_master.main_body(
                model_master.crossing_table(s, h)[0])[2]
                for s in (rises, recs))
        finally:
            connection.close()
        if not ok:
            raise Reject('a main body is ambiguous')
        guarded(wf.rise)
        guarded(wf.recession)
        guarded(wf.set_curvature, case['curvature'])
        connection = wf.connect()
        try:
            _, rise_levels = read_curve(connection, 'rise')
            _, rec_levels = read_curve(connection, 'recession')
            # the views are what the pst writer reads: use the same AVG
            rise_view = connection.execute(
                'SELECT zeta_mm, mean_crossing_depth_mm '
                'FROM average_rising_depth ORDER BY zeta_mm').fetchall()
            rec_view = connection.execute(
                'SELECT zeta_mm, CAST(elapsed_time_s AS double precision) '
                '/ (3600 * 24) FROM average_recession_time '
                'ORDER BY zeta_mm DESC').fetchall()
        finally:
            connection.close()
        sane = wf.path('sane.yml')
        wild = wf.path('wild.yml')
        with open(sane, 'w') as f:
            yaml.safe_dump(case['parameters'], f)
        with open(wild, 'w') as f:
            yaml.safe_dump(case['wild_parameters'], f)
        wild_loaded = yaml.safe_load(open(wild).read())
        files = {}
        whats = ('rise',) if case.get('mixed') else ('rise', 'curves')
        if case.get('mixed'):
            labels.add('sections-of-different-kinds')
        for what in whats:
            for kind in ('tpl', 'ins', 'pst'):
                files[(what, kind)] = guarded(
                    wf.pestfiles, what, wild, kind)
        rise_vec = guarded(wf.simulate, 'rise', sane, True)
        rise_tab = load_output_yaml(
            guarded(wf.simulate, 'rise', sane, False), 'rise-table')
        rec_vec, rec_tab = '', [[]]
        if 'curves' in whats:
            rec_vec = guarded(wf.simulate, 'recession', sane, True)
            rec_tab = load_output_yaml(
                guarded(wf.simulate, 'recession', sane, False),
                'recession-table')
    n_rise, n_rec = len(rise_view), len(rec_view)
    for what in whats:
        obs_lines = check_template(
            files[(what, 'tpl')], files[(what, 'pst')], wild_loaded, what)
        expected = [v for _, v in rise_view]
        if what == 'curves':
            expected += [v for _, v in rec_view]
        if len(obs_lines) != len(expected):
            raise Violation('observation-count-differs-from-curve',
                            '{}: {} vs {}'.format(
                                what, len(obs_lines), len(expected)))
        for i, (line, want) in enumerate(zip(obs_lines, expected), start=1):
            parts = line.split()
            if parts[0].lower() != 'e{}'.format(i):
                raise Violation('observation-name-out-of-sequence', line)
            got = float(parts[1])
            if got != want:
                raise Violation(
                    'observation-not-identical-master-curve-value',
                    '{} observation {}: control file {!r} ({}), master '
                    'curve {!r}'.format(what, i, got, parts[1], want))
        # instruction file against the simulation output
        output = rise_vec if what == 'rise' else rise_vec + rec_vec
        try:
            extracted = model_pest.read_instructions(
                files[(what, 'ins')], output)
        except LookupError as exc:
            raise Violation('instruction-file-does-not-fit-output',
                            str(exc)) from exc
        except ValueError as exc:
            raise Violation('instruction-file-not-understood',
                            str(exc)) from exc
        simulated = [row[2] for row in rise_tab[1:]]
        sim_levels = [row[0] for row in rise_tab[1:]]
        obs_levels = [z for z, _ in rise_view]
        if what == 'curves':
            simulated += [row[2] for row in rec_tab[1:]]
            sim_levels += [row[0] for row in rec_tab[1:]]
            obs_levels += [z for z, _ in rec_view]
        if len(extracted) != len(obs_lines):
            raise Violation('instruction-count-differs-from-observations',
                            '{} vs {}'.format(len(extracted), len(obs_lines)))
        for i, ((name, field, value, line), sim, zs, zo) in enumerate(zip(
                extracted, simulated, sim_levels, obs_levels), start=1):
            if name.lower() != 'e{}'.format(i):
                raise Violation('instruction-name-out-of-sequence', name)
            if abs(zs - zo) > 1e-9 * max(abs(zo), 1.0):
                raise Violation(
                    'observation-and-simulation-at-different-levels',
                    '{} #{}: observation at {!r} mm, simulated value at '
                    '{!r} mm'.format(what, i, zo, zs))
            printed = _printed_value(line)
            if value != printed:
                # what the instruction file extracts is not what the
                # simulator printed on that line
                raise Violation(
                    'ins-field-narrower-than-float-text'
                    if len(line) > 24 else
                    'extracted-value-differs-from-simulated',
                    '{} #{}: line {!r} read through columns 3:24 as '
                    '{!r}'.format(what, i, line, field))
            if not _same_number(printed, sim):
                raise Violation(
                    'observation-vector-differs-from-table',
                    '{} #{}: printed {!r}, table {!r}'.format(
                        what, i, printed, sim))
    if n_rec >= 2:
        labels.add('>=2-recession-levels')
    literals = [v for _, v in flatten_numbers(case['wild_parameters'])
                if isinstance(v, float)]
    if any('e' in repr(v) for v in literals):
        labels.add('literal-with-exponent')
    if {'>=2-recession-levels', 'literal-with-exponent'} <= labels:
        labels.add('nontrivial')
    return labels


def _printed_value(line):
    """The number a YAML reader finds on a '- value' line."""
    try:
        return float(yaml.safe_load(line)[0])
    except Exception:  # pylint: disable=broad-except
        return None


def _same_number(a, b):
    """Two renderings of one simulated value (the vector may carry fewer
    digits so as to fit the instruction file's field)."""
    if a is None or b is None:
        return False
    return a == b or abs(a - b) <= 1e-14 * max(abs(a), abs(b))


# ------------------------------------------------------- value round trips

@st.composite
def many_value_cases(draw):
    """A fine grid over a long record: ten thousand observations and more
    (names e1 .. e12000); values follow a rule so the case stays small."""
    return {'many': {'n': draw(st.sampled_from([10000, 10001, 12000, 9999,
                                                 10000, 10500])),
                     'a': draw(st.sampled_from([0.125, -0.125, 0.3])),
                     'b': draw(st.integers(-40, 40)) / 8.0},
            'sy': draw(st.sampled_from([0.125, 0.5, 1.0]))}


@st.composite
def value_cases(draw):
    n = draw(st.integers(2, 6))
    values = [draw(st.one_of(
        st.floats(-1e-3, 1e-3), st.floats(-500.0, 500.0),
        st.floats(allow_nan=False, allow_infinity=False, width=64,
                  min_value=-1e12, max_value=1e12),
        st.sampled_from([-1.2345678901234567e-05, 1.2345678901234567e-05,
                         -0.00012345678901234567, 0.1, -7.0])))
        for _ in range(n)]
    scale = draw(st.sampled_from([1.0, 1.0, 1.0, 1e-100, 1e-120, 1e+100]))
    if scale != 1.0:
        # three-digit exponents: every finite value the simulator can print
        values = [v * scale if abs(v) < 1e6 else scale * 3.7
                  for v in values]
    return {'values': values,
            'sy': draw(st.sampled_from([0.125, 0.5, 1.0])) * scale}


def tiny_dataset(values):
    """A loaded + gridded dataset whose rise master curve holds exactly
    the given values at levels 0..n-1 (one interval carrying every level
    twice is not needed: the view averages offset + crossing)."""
    n = len(values)
    case = {'dt': 3600, 't0': 1388534400, 'tz': 'UTC',
            'rain': [[i, 0.0] for i in range(n + 2)],
            'et': [[i, 0.0] for i in range(-1, n + 4)],
            'wl': [[i * 3600, float(i)] for i in range(n + 3)]}
    connection = dataset.load_memory(case)
    tree.mod('classify').classify_intervals(connection, 4.0, 8.0)
    tree.mod('zeta_grid').populate_zeta_grid(connection, 1.0)
    connection.commit()
    connection.execute('PRAGMA foreign_keys = 0')
    start = case['t0']
    connection.execute(
        "INSERT INTO rising_interval (start_epoch, rain_depth_offset_mm) "
        "VALUES (?, 0.0)", (start,))
    for k, v in enumerate(values):
        connection.execute(
            'INSERT INTO rising_interval_zeta '
            '(start_epoch, zeta_number, mean_crossing_depth_mm) '
            'VALUES (?, ?, ?)', (start, k, v))
    connection.commit()
    return connection


def many_values(rule):
    return [rule['b'] + rule['a'] * k + (k % 7 - 3) * 1.5
            for k in range(rule['n'])]


def check_values(case):
    values = many_values(case['many']) if 'many' in case else case['values']
    try:
        connection = tiny_dataset(values)
    except Exception as exc:  # pylint: disable=broad-except
        raise Reject('tiny dataset not built: ' + type(exc).__name__) from exc
    params = {'specific_yield': {
        'type': 'spline', 'zeta_knots_mm': [
            -10.0, 0.0, 10.0, float(max(20, len(values) + 5))],
        'sy_knots': [case['sy']] * 4},
        'transmissivity': {'type': 'spline', 'zeta_knots_mm': [
            -10.0, float(max(50, len(values) + 5))],
                           'K_knots_km_d': [1.0, 1.0],
                           'minimum_transmissivity_m2_d': 1.0}}
    text = yaml.safe_dump(params)
    try:
        sim = tree.mod('simulate_rise')
        pest = tree.mod('pestfiles')
        vec = io.StringIO()
        guarded(sim.simulate_rise, connection, io.StringIO(text), vec, True)
        tab = io.StringIO()
        guarded(sim.simulate_rise, connection, io.StringIO(text), tab, False)
        ins = io.StringIO()
        guarded(pest.generate_rise_pestfiles, connection, io.StringIO(text),
                'ins', None, ins)
        pst = io.StringIO()
        guarded(pest.generate_rise_pestfiles, connection, io.StringIO(text),
                'pst', None, pst)
    finally:
        connection.close()
    rows = load_output_yaml(tab.getvalue(), 'rise-table')[1:]
    simulated = [r[2] for r in rows]
    measured = [r[1] for r in rows]
    if measured != values:
        raise Violation('measured-column-differs-from-master-curve',
                        repr((measured, values)))
    obs_lines = [l for l in model_pest.control_sections(
        pst.getvalue())['observation data'] if l.strip()]
    if len(obs_lines) != len(values):
        raise Violation('observation-count-differs-from-master-curve',
                        '{} lines, {} levels'.format(
                            len(obs_lines), len(values)))
    for line, want in zip(obs_lines, values):
        fields = line.split()
        try:
            stored = float(fields[1])
        except (IndexError, ValueError):
            stored = None
        if stored != want:
            raise Violation('observation-not-identical-master-curve-value',
                            '{!r} vs {!r}'.format(line, want))
    try:
        extracted = model_pest.read_instructions(ins.getvalue(),
                                                 vec.getvalue())
    except (LookupError, ValueError) as exc:
        raise Violation('instruction-file-not-understood', str(exc)) from exc
    if [name.lower() for name, _, _, _ in extracted] != [
            line.split()[0].lower() for line in obs_lines]:
        raise Violation(
            'observation-names-differ-between-pst-and-ins',
            repr(([n for n, _, _, _ in extracted][-2:],
                  [line.split()[0] for line in obs_lines][-2:])))
    labels = set()
    if 'many' in case:
        labels.add('observations>=10000' if len(values) >= 10000
                   else 'observations<10000')
    for (name, field, value, line), want in zip(extracted, simulated):
        if len(line) - 2 > 20:
            labels.add('nontrivial')
        printed = _printed_value(line)
        if value != printed:
            raise Violation(
                'ins-field-narrower-than-float-text'
                if len(line) > 24 else
                'extracted-value-differs-from-simulated',
                'line {!r} read through columns 3:24 as {!r}'.format(
                    line, field))
        if not _same_number(printed, want):
            raise Violation('observation-vector-differs-from-table',
                            'printed {!r}, table {!r}'.format(printed, want))
    return labels


PARTS = [
    Part('files', check_files, strategy=lambda tier: file_cases(tier),
         budget={'quick': 12, 'thorough': 300},
         describe='six PEST files + four simulate outputs per dataset'),
    Part('values', check_values, strategy=lambda tier: value_cases(),
         budget={'quick': 150, 'thorough': 5000},
         describe='printed simulation values through the instruction file'),
    Part('many_values', check_values,
         strategy=lambda tier: many_value_cases(),
         budget={'quick': 2, 'thorough': 4},
         shards={'quick': 4, 'thorough': 16},
         describe='9999-12000 observations in one control file'),
]
