"""C20 -- each workflow step is all-or-nothing; independent steps commute."""

import os
import shutil
import signal
import sqlite3
import subprocess
import sys
import tempfile

from hypothesis import strategies as st

from vfw import ambient, dataset, dbdump, faults, gen_records, gen_truth
from vfw.core import (Part, Violation, Reject, VERIF_DIR, REPO_DIR,
                      exception_signature)

LEVEL = 'fault_enumeration'
RULE = (
    'Histories (<= 12 operations, generated as data and shrunk as one value) '
    'over one dataset file (G-truth, or G-scenario with gaps so that classify '
    'has several write batches). Operations: run a step (classify, '
    'set-zeta-grid, set-curvature, rise, recession; generated arguments) '
    'cleanly - possibly out of order or a second time, when it must fail by '
    'itself (e.g. set-zeta-grid -d 0, which fails after its first write); run it '
    'with an injected error at statement k (sqlite3.OperationalError, a '
    'RuntimeError that is not a database error, or KeyboardInterrupt); '
    'run it with a simulated kill at statement k (snapshot of file + journal '
    'taken under PRAGMA cache_size=1, then opened for hot-journal recovery); at '
    'the end of every history each completed step is attempted once more in a '
    'way that cannot complete; '
    'k = 1 + floor(frac*N), N learned from a counting dry run on a copy. '
    'Part every_statement enumerates EVERY statement index of every step of a '
    'dataset as fault point and as kill point (exhaustive per dataset); part '
    'sigkill delivers a real SIGKILL in a child process at a chosen '
    'statement; part fine_grid does the every-statement enumeration for a set-zeta-grid that stores 100,001-250,000 levels; part fine_history faults and kills rise / recession while they store > 10,000 crossing rows each; part session runs histories of clean, failing and faulted steps on ONE connection kept open across all steps (every connect() of the dispatch code returns it). Oracle (model = set of completed steps with arguments): after '
    'every operation the logical dump of the file equals the dump of a '
    'reference file built by running exactly the completed steps once each '
    'in canonical order on a fresh copy of the loaded dataset (a failed, '
    'faulted or killed step may leave the previous content or the complete '
    'result, never anything else). Non-trivial: the history has a fault or '
    'kill after the step\'s first write and two independent steps completed '
    'in non-canonical order; distinct = SHA-1 of the case.'
)
ASSUMPTIONS = [
    'a snapshot of the file and its journal taken between two statements is '
    'what kill -9 leaves (process death, not power loss); validated by the '
    'sigkill part',
]

STEPS = ['classify', 'set-zeta-grid', 'set-curvature', 'rise', 'recession']
GRIDS = ['1.0', '0.5', '2.0', '0']  # '0': fails by itself after its first write
CURVATURES = ['0.5', '2.36']


def step_argv(case, step, arg, db):
    if step == 'classify':
        s, j = case['s'], case['j']
        if arg % 4 == 1:
            s = s * 2
        elif arg % 4 in (2, 3):
            # another jump threshold on the same lattice
            units = case.get('thr_units', 4)
            other = units // 2 if (arg % 4 == 2 and units > 1) else units + 3
            j = (other / 8.0) * 3600.0 / case['dt']
        return ['classify', db, '-s', repr(float(s)), '-j', repr(float(j))]
    if step in ('rise', 'recession') and arg % 4 == 3:
        # off every generated grid: the step must fail by itself
        return [step, db, '--reference-zeta-mm=0.37']
    if step == 'set-zeta-grid':
        if case.get('fine_grid') and arg % len(GRIDS) != 3:
            # (part fine_grid) hundreds of thousands of levels
            return ['set-zeta-grid', db, '-d', case['fine_grid']]
        return ['set-zeta-grid', db, '-d', GRIDS[arg % len(GRIDS)]]
    if step == 'set-curvature':
        return ['set-curvature', db, CURVATURES[arg % len(CURVATURES)]]
    return [step, db]


def logical_dump(path):
    connection = sqlite3.connect(path)
    try:
        return dbdump.dump(connection)
    finally:
        connection.close()


class Machine:
    """The dataset under test plus the model of completed steps."""

    def __init__(self, case):
        self.case = case
        self.directory = tempfile.mkdtemp(
            prefix=ambient.scratch_prefix() + 'c20-', dir=dataset.scratch_root())
        self.db = os.path.join(self.directory, 'data.sqlite3')
        self.loaded = os.path.join(self.directory, 'loaded.sqlite3')
        self.completed = {}      # step -> arg
        self.order = []          # completion order
        self.references = {}
        self.counter = 0

    def close(self):
        shutil.rmtree(self.directory, ignore_errors=True)

    def load(self):
        try:
            dataset.cli_load(self.case, self.db, self.directory)
        except (ValueError, sqlite3.IntegrityError) as exc:
            raise Reject('load-refused') from exc
        shutil.copyfile(self.db, self.loaded)

    def scratch(self, name):
        self.counter += 1
        return os.path.join(self.directory, '{}-{}'.format(
            name, self.counter))

    def run(self, step, arg, db=None, plan=None):
        """Run one step through the CLI; returns the exception or None."""
        argv = step_argv(self.case, step, arg, db or self.db)
        try:
            if plan is None:
                dataset.cli(argv)
            else:
                with faults.injected(plan):
                    dataset.cli(argv)
        except (faults.SimulatedKill, KeyboardInterrupt) as exc:
            return exc
        except Exception as exc:  # pylint: disable=broad-except
            return exc
        return None

    def reference(self, completed):
        """Dump of the loaded dataset + exactly these steps, once each, in
        canonical order."""
        key = tuple(sorted(completed.items()))
        if key not in self.references:
            path = self.scratch('reference.sqlite3')
            shutil.copyfile(self.loaded, path)
            for step in STEPS:
                if step in completed:
                    error = self.run(step, completed[step], db=path)
                    if error is not None:
                        raise Violation(
                            'step-fails-in-canonical-order:' + step,
                            'completed {} then {!r}'.format(completed, error))
            self.references[key] = logical_dump(path)
            os.remove(path)
        return self.references[key]

    def count_statements(self, step, arg):
        """Dry run on a copy with a counting shim."""
        path = self.scratch('dry.sqlite3')
        shutil.copyfile(self.db, path)
        plan = faults.Plan('count')
        error = self.run(step, arg, db=path, plan=plan)
        for suffix in ('', '-journal'):
            if os.path.exists(path + suffix):
                os.remove(path + suffix)
        return plan.count, plan.first_write, error

    def settle(self, step, arg, what):
        """After an operation on `step`: the file must equal the reference
        of the completed steps, or of the completed steps with this step
        (newly, or - should the package ever allow re-running a step - with
        its new arguments) carried out completely."""
        got = logical_dump(self.db)
        before = self.reference(self.completed)
        if dbdump.diff(got, before) is None:
            return 'unchanged'
        after_steps = dict(self.completed)
        after_steps[step] = arg
        try:
            after = self.reference(after_steps)
        except Violation:
            after = None
        if after is not None and dbdump.diff(got, after) is None:
            outcome = 'replaced' if step in self.completed else 'completed'
            self.completed[step] = arg
            if step not in self.order:
                self.order.append(step)
            return outcome
        raise Violation(
            'mixture-after-{}:{}'.format(what, step),
            'after {} of {}: file is neither the previous content nor the '
            'complete result; vs previous: {}'.format(
                what, step, dbdump.diff(got, before)))


class _Switch:
    """Plan holder for a connection that outlives several operations."""

    def __init__(self):
        self.plan = None
        self.commits = 0

    def statement(self, sql):
        if self.plan is not None:
            self.plan.statement(sql)


class SharedConnection:
    """Stands in for the sqlite3 module inside spowtd.user_interface: every
    connect() to the dataset returns one and the same connection object, as
    in a program (a notebook, a batch script) that opens the dataset once
    and carries out the steps on that connection.  `with connection:` in the
    package's own dispatch still commits or rolls back each step."""

    def __init__(self, path):
        self.path = os.path.realpath(path)
        self.switch = _Switch()
        self.connection = None

    def __getattr__(self, name):
        return getattr(sqlite3, name)

    def connect(self, path, *args, **kwargs):
        if os.path.realpath(path) != self.path:
            return sqlite3.connect(path, *args, **kwargs)
        if self.connection is None:
            self.connection = sqlite3.connect(
                path, factory=faults.make_connection_class(self.switch))
        return self.connection

    def close(self):
        if self.connection is not None:
            self.connection.close()
            self.connection = None


class SessionMachine(Machine):
    """All operations on the dataset file go through one connection."""

    def __init__(self, case):
        super().__init__(case)
        self.session = SharedConnection(self.db)

    def close(self):
        self.session.close()
        super().close()

    def run(self, step, arg, db=None, plan=None):
        if db is not None:
            # references and dry runs on copies: the ordinary command line
            return super().run(step, arg, db=db, plan=plan)
        from vfw import tree
        ui = tree.mod('user_interface')
        argv = step_argv(self.case, step, arg, self.db)
        original = ui.sqlite3
        ui.sqlite3 = self.session
        self.session.switch.plan = plan
        try:
            dataset.cli(argv)
        except (faults.SimulatedKill, KeyboardInterrupt) as exc:
            return exc
        except Exception as exc:  # pylint: disable=broad-except
            return exc
        finally:
            self.session.switch.plan = None
            ui.sqlite3 = original
        return None


@st.composite
def session_histories(draw, tier):
    record = draw(histories(tier))
    ops = [dict(op, kind='fault') if op['kind'] == 'kill' else op
           for op in record['ops']]
    if draw(st.booleans()):
        # an attempt that fails by itself comes first (a curve before the
        # grid is set): whatever it leaves on the connection must not
        # matter to the steps that follow
        ops.insert(0, {'kind': 'run', 'arg': draw(st.integers(0, 3)),
                       'step': draw(st.sampled_from(['rise', 'recession']))})
    record['ops'] = ops
    record['session'] = True
    return record


def apply_op(machine, op, labels):
    step, arg, kind = op['step'], op['arg'], op['kind']
    if kind == 'run':
        was_done = step in machine.completed
        error = machine.run(step, arg)
        outcome = machine.settle(step, arg, 'run')
        if error is None and outcome == 'unchanged' and not was_done:
            raise Violation('step-succeeded-without-effect:' + step, '')
        if error is not None and outcome in ('completed', 'replaced'):
            raise Violation('step-failed-but-took-effect:' + step,
                            repr(error))
        labels.add('run-ok' if error is None else 'run-refused')
        if outcome == 'replaced':
            labels.add('rerun-carried-out')
        return
    n, first_write, dry_error = machine.count_statements(step, arg)
    if n == 0:
        labels.add('no-statements')
        return
    k = 1 + min(n - 1, int(op['frac'] * n))
    after_write = first_write is not None and k > first_write
    if kind == 'fault':
        plan = faults.Plan('fault', k=k, exception=op.get('exc', 'sqlite'))
        labels.add('fault-kind-' + op.get('exc', 'sqlite'))
        error = machine.run(step, arg, plan=plan)
        machine.settle(step, arg, 'fault')
        if plan.fired:
            labels.add('fault-after-first-write' if after_write
                       else 'fault-before-first-write')
        return
    # simulated kill
    snap = machine.scratch('snapshot')
    plan = faults.Plan('kill', k=k, snapshot_dir=snap)
    machine.run(step, arg, plan=plan)
    if not plan.fired:
        machine.settle(step, arg, 'run')
        return
    # the process is dead; what the next opener finds is the snapshot
    for suffix in ('', '-journal', '-wal', '-shm'):
        if os.path.exists(machine.db + suffix):
            os.remove(machine.db + suffix)
    for name in os.listdir(snap):
        shutil.copyfile(os.path.join(snap, name),
                        os.path.join(machine.directory, name))
    shutil.rmtree(snap, ignore_errors=True)
    had_journal = os.path.exists(machine.db + '-journal')
    # first opener performs hot-journal recovery
    connection = sqlite3.connect(machine.db)
    try:
        connection.execute('SELECT count(*) FROM sqlite_master').fetchall()
        connection.execute('BEGIN IMMEDIATE')
        connection.rollback()
    finally:
        connection.close()
    machine.settle(step, arg, 'kill')
    labels.add('kill-after-first-write' if after_write
               else 'kill-before-first-write')
    if had_journal:
        labels.add('kill-left-hot-journal')


@st.composite
def datasets(draw):
    kind = draw(st.sampled_from(['truth', 'truth', 'scenario']))
    if kind == 'truth':
        return draw(gen_truth.truth_records(
            noise=draw(st.booleans()), min_storms=3, max_storms=5,
            curve_len=30))
    record = draw(gen_records.scenario_records(
        max_events=10, min_events=5, allow_gaps=True))
    return record


@st.composite
def histories(draw, tier):
    record = draw(datasets())
    ops = draw(st.lists(
        st.fixed_dictionaries({
            'kind': st.sampled_from(['run', 'run', 'fault', 'kill']),
            'step': st.sampled_from(STEPS),
            'arg': st.integers(0, 3),
            'frac': st.floats(0.0, 0.999),
            'exc': st.sampled_from(['sqlite', 'sqlite', 'runtime',
                                    'interrupt']),
        }), min_size=4, max_size=12))
    record['ops'] = ops
    return record


def check_history(case):
    machine = SessionMachine(case) if case.get('session') else Machine(case)
    labels = set()
    try:
        machine.load()
        for op in case['ops']:
            apply_op(machine, op, labels)
        # finally the remaining steps run cleanly (re-runnability)
        for step in STEPS:
            if step not in machine.completed:
                apply_op(machine, {'kind': 'run', 'step': step, 'arg': 0},
                         labels)
        order = list(machine.order)
        # ... and every completed step is attempted once more in a way that
        # cannot complete (failing by itself, faulted late, or killed late):
        # a second attempt must not damage what the first one stored
        for index, step in enumerate(list(machine.completed)):
            variant = (len(case['ops']) + index) % 3
            if case.get('session') and variant == 2:
                variant = 1     # (a killed process has no connection left)
            if variant == 0:
                op = {'kind': 'run', 'step': step, 'arg': 3}
            elif variant == 1:
                op = {'kind': 'fault', 'step': step, 'arg': 3,
                      'frac': 0.9, 'exc': 'runtime'}
            else:
                op = {'kind': 'kill', 'step': step, 'arg': 3, 'frac': 0.9}
            apply_op(machine, op, labels)
        labels.add('second-attempts')
    finally:
        machine.close()
    canonical = [s for s in STEPS if s in order]
    if order != canonical:
        labels.add('non-canonical-order')
    if ('non-canonical-order' in labels and labels & {
            'fault-after-first-write', 'kill-after-first-write'}):
        labels.add('nontrivial')
    if case.get('fine_grid') and labels & {
            'fault-after-first-write', 'kill-after-first-write'}:
        labels.update({'nontrivial', 'crossing-rows>10000'})
    if case.get('session'):
        labels.add('one-connection-for-all-steps')
    labels.add('completed:{}'.format(len(order)))
    return labels


# ------------------------------------------------ every statement of a step

def check_every_statement(case):
    machine = Machine(case)
    labels = set()
    points = 0
    try:
        machine.load()
        sequence = case.get('sequence') or STEPS
        for step in sequence:
            n, first_write, _ = machine.count_statements(step, 0)
            for k in range(1, n + 1):
                frac = (k - 1 + 0.5) / n
                for kind, exc in (('fault', 'sqlite'), ('fault', 'runtime'),
                                  ('kill', None)):
                    apply_op(machine, {'kind': kind, 'step': step, 'arg': 0,
                                       'frac': frac, 'exc': exc}, labels)
                    points += 1
            apply_op(machine, {'kind': 'run', 'step': step, 'arg': 0},
                     labels)
    finally:
        machine.close()
    labels.add('points>={}'.format(min(points // 50, 20) * 50))
    if points >= 50 and labels & {'kill-left-hot-journal'}:
        labels.add('nontrivial')
    if case.get('fine_grid') and labels & {
            'fault-after-first-write', 'kill-after-first-write'}:
        labels.update({'nontrivial', 'levels>100000'})
    return labels


@st.composite
def statement_cases(draw):
    record = draw(datasets())
    seq = draw(st.sampled_from([
        STEPS,
        ['set-curvature', 'set-zeta-grid', 'classify', 'recession', 'rise'],
        ['set-zeta-grid', 'classify', 'rise', 'set-curvature', 'recession'],
    ]))
    record['sequence'] = list(seq)
    return record


@st.composite
def fine_grid_cases(draw):
    """A very fine (but legal) water-level grid: 100,001 - 250,000 levels
    stored by one set-zeta-grid, every statement of which is a fault and a
    kill point."""
    record = draw(datasets())
    levels = [v for _, v in record['wl']]
    span = max(levels) - min(levels) or 1.0
    target = draw(st.sampled_from([100001, 120000, 200001, 250000]))
    record['fine_grid'] = repr(span / target)
    record['sequence'] = ['set-zeta-grid']
    return record


@st.composite
def fine_history_cases(draw):
    """A grid of about 6000 levels: rise and recession each store more than
    ten thousand crossing rows, one statement per row; faults and kills fall
    anywhere in that stream."""
    record = draw(gen_truth.truth_records(
        noise=True, min_storms=4, max_storms=5, curve_len=30))
    levels = [v for _, v in record['wl']]
    span = max(levels) - min(levels) or 1.0
    record['fine_grid'] = repr(span / draw(st.sampled_from([5000, 6000, 7000])))
    frac = st.floats(0.1, 0.999)
    ops = [{'kind': 'run', 'step': 'classify', 'arg': 0},
           {'kind': 'run', 'step': 'set-zeta-grid', 'arg': 0}]
    for step in draw(st.permutations(['rise', 'recession'])):
        ops.append({'kind': 'fault', 'step': step, 'arg': 0,
                    'frac': draw(frac), 'exc': draw(st.sampled_from(
                        ['sqlite', 'runtime', 'interrupt']))})
        ops.append({'kind': 'kill', 'step': step, 'arg': 0,
                    'frac': draw(frac)})
        ops.append({'kind': 'run', 'step': step, 'arg': 0})
    record['ops'] = ops
    return record


# ------------------------------------------------------------ real SIGKILL

CHILD = r'''
import os, signal, sys
sys.path.insert(0, {repo!r}); sys.path.insert(1, {verif!r})
sys.dont_write_bytecode = True
from vfw import faults, dataset
class Plan(faults.Plan):
    def statement(self, sql):
        if self.muted:
            return
        self.count += 1
        if self.count == self.k:
            os.kill(os.getpid(), signal.SIGKILL)
plan = Plan('count', k={k})
with faults.injected(plan):
    dataset.cli({argv!r})
'''


def check_sigkill(case):
    machine = Machine(case)
    labels = set()
    try:
        machine.load()
        for step in STEPS:
            n, first_write, _ = machine.count_statements(step, 0)
            if step == case['victim'] and n:
                k = 1 + min(n - 1, int(case['frac'] * n))
                argv = step_argv(case, step, 0, machine.db)
                code = CHILD.format(repo=REPO_DIR, verif=VERIF_DIR, k=k,
                                    argv=argv)
                proc = subprocess.run(
                    [sys.executable] + (['-O'] if sys.flags.optimize else [])
                    + ['-c', code], capture_output=True,
                    env=dict(os.environ, PYTHONDONTWRITEBYTECODE='1'))
                if proc.returncode != -signal.SIGKILL:
                    raise Reject('child was not killed (rc {})'.format(
                        proc.returncode))
                if os.path.exists(machine.db + '-journal'):
                    labels.add('kill-left-hot-journal')
                machine.settle(step, 0, 'sigkill')
                labels.add('sigkill-delivered')
                if first_write is not None and k > first_write:
                    labels.add('nontrivial')
            if step not in machine.completed:
                apply_op(machine, {'kind': 'run', 'step': step, 'arg': 0},
                         labels)
    finally:
        machine.close()
    return labels


@st.composite
def sigkill_cases(draw):
    record = draw(datasets())
    record['victim'] = draw(st.sampled_from(
        ['classify', 'classify', 'rise', 'recession', 'set-zeta-grid']))
    record['frac'] = draw(st.floats(0.0, 0.999))
    return record


PARTS = [
    Part('histories', check_history, strategy=lambda tier: histories(tier),
         budget={'quick': 8, 'thorough': 300},
         shards={'quick': 8, 'thorough': 16},
         describe='generated histories of clean / faulted / killed steps'),
    Part('every_statement', check_every_statement,
         strategy=lambda tier: statement_cases(),
         budget={'quick': 3, 'thorough': 6},
         shards={'quick': 4, 'thorough': 16},
         exhaustive={'quick': False, 'thorough': False},
         describe='every statement of every step as fault and kill point '
                  '(exhaustive per dataset)'),
    Part('fine_grid', check_every_statement,
         strategy=lambda tier: fine_grid_cases(),
         budget={'quick': 1, 'thorough': 2},
         shards={'quick': 3, 'thorough': 16},
         describe='set-zeta-grid storing 100,001-250,000 levels: every '
                  'statement as fault and kill point'),
    Part('fine_history', check_history,
         strategy=lambda tier: fine_history_cases(),
         # (the first example Hypothesis tries is the simplest record, on
         # which rise has nothing to store; the second one is random)
         budget={'quick': 2, 'thorough': 3},
         shards={'quick': 3, 'thorough': 16},
         describe='rise / recession storing > 10,000 crossing rows each, '
                  'faulted and killed inside that stream'),
    Part('session', check_history,
         strategy=lambda tier: session_histories(tier),
         budget={'quick': 6, 'thorough': 150},
         shards={'quick': 4, 'thorough': 16},
         describe='the same histories (faults, no kills) with every step '
                  'carried out on one connection kept open by the caller'),
    Part('sigkill', check_sigkill, strategy=lambda tier: sigkill_cases(),
         budget={'quick': 3, 'thorough': 12},
         shards={'quick': 4, 'thorough': 16},
         describe='real SIGKILL in a child process at statement k'),
]
