"""C12 -- level crossings of the piecewise-linear record are exact."""

import itertools
import math
from fractions import Fraction as F

import numpy as np
from hypothesis import strategies as st

from vfw import tree
from vfw.core import Part, Violation, guarded
from vfw import model_crossings as mc

LEVEL = 'exploration'
RULE = (
    'Series of 2-12 samples with strictly increasing abscissae (small '
    'integers, dyadic floats, UNIX-epoch magnitudes) and rising / falling / '
    'flat / non-monotone ordinates. Lattice regime: ordinates are multiples '
    'of 1/8 and the step is any multiple of 1/8 up to 100 (1, 0.5, 0.25, 2, '
    '2.5, 5, 3, 7, 49, 75, 77, 93, 99 over-sampled), so the exact '
    'Fraction model decides the reported level sequence with equality. Free '
    'regime: decimal steps (0.1, 0.2, 0.3, 0.7, 1/3) and arbitrary float '
    'steps in [0.01, 50] with samples placed on, '
    'one ulp below and one ulp above k*step; a sample whose exact quotient '
    'lies within 2 ulp above an integer may be read either way. Every '
    'reported abscissa must lie in its bracket and satisfy the interpolant '
    'to a stated ulp-level residual. build_head_mapping must give the '
    'per-level mean. A case is non-trivial if a sample lies exactly on a '
    'level, or a level is crossed more than once, or a flat segment lies on '
    'a level; distinct = SHA-1 of the canonical JSON of the case.'
)
ASSUMPTIONS = [
    'exact rational arithmetic of fractions.Fraction',
    'scipy brentq honours its documented xtol/rtol',
]

LATTICE_STEPS = [1.0, 0.5, 0.25, 2.0, 2.5, 5.0]
FREE_STEPS = [0.1, 0.2, 0.3, 0.7, 1.0 / 3.0, 1.0, 2.5]
EPS = 2.0 ** -52


@st.composite
def lattice_cases(draw):
    h = draw(st.one_of(
        st.sampled_from(LATTICE_STEPS),
        st.sampled_from([3.0, 7.0, 49.0, 75.0, 77.0, 93.0, 99.0, 0.375,
                         12.25, 9.375]),
        st.integers(1, 800).map(lambda m: m / 8.0)))
    n = draw(st.integers(2, 12))
    x0 = draw(st.sampled_from([0, 0, 17, 1400000000, 1388534400, -3600]))
    kind = draw(st.sampled_from(['int', 'int', 'dyadic']))
    dxs = draw(st.lists(st.sampled_from(
        [1, 1, 2, 3, 600, 900, 1200, 3600, 7200]), min_size=n - 1,
        max_size=n - 1))
    x = [float(x0)]
    for d in dxs:
        x.append(x[-1] + (d if kind == 'int' else d / 8.0))
    unit = int(round(h * 8))  # lattice units per level (h*8 is an integer)
    span = draw(st.sampled_from([8, 24, 80, 240])) * max(1, unit // 8)
    # increments from a small alphabet so flats / on-level samples are common
    y0 = draw(st.integers(-span, span))
    on_level = draw(st.booleans())
    if on_level:
        y0 = (y0 // max(unit, 1)) * max(unit, 1)
    incs = draw(st.lists(st.one_of(
        st.sampled_from([0, unit, -unit, 2 * unit, -2 * unit, 1, -1]),
        st.integers(-span, span)), min_size=n - 1, max_size=n - 1))
    y = [y0]
    for inc in incs:
        y.append(y[-1] + inc)
    return {'regime': 'lattice', 'x': x, 'y': [v / 8.0 for v in y], 'h': h}


def _nudge(value, ulps):
    for _ in range(abs(ulps)):
        value = math.nextafter(value, math.inf if ulps > 0 else -math.inf)
    return value


@st.composite
def free_cases(draw):
    h = draw(st.one_of(st.sampled_from(FREE_STEPS),
                       st.sampled_from(FREE_STEPS),
                       st.floats(0.01, 50.0)))
    n = draw(st.integers(2, 10))
    x0 = draw(st.sampled_from([0.0, 0.5, 1400000000.0, 12.25]))
    dxs = draw(st.lists(st.one_of(
        st.sampled_from([1.0, 600.0, 1800.0, 0.375]),
        st.floats(0.01, 5000.0)), min_size=n - 1, max_size=n - 1))
    x = [x0]
    for d in dxs:
        nxt = x[-1] + d
        if nxt <= x[-1]:
            nxt = math.nextafter(x[-1], math.inf)
        x.append(nxt)
    y = []
    for _ in range(n):
        mode = draw(st.sampled_from(['on', 'below', 'above', 'free', 'free']))
        k = draw(st.integers(-40, 40))
        if mode == 'free':
            y.append(draw(st.floats(-40 * h, 40 * h)))
        else:
            base = k * h
            y.append(_nudge(
                base, {'on': 0, 'below': -1, 'above': 1}[mode]))
    return {'regime': 'free', 'x': x, 'y': y, 'h': h}


def strategy(tier):
    return st.one_of(lattice_cases(), free_cases())


def _residual_ok(case, k, xr, pair):
    x, y, h = case['x'], case['y'], case['h']
    xa, xb, ya, yb = x[pair], x[pair + 1], y[pair], y[pair + 1]
    if not xa <= xr <= xb:
        return False
    L = F(ya) + (F(yb) - F(ya)) * (F(xr) - F(xa)) / (F(xb) - F(xa))
    target = k * F(h)
    slope = abs((yb - ya) / (xb - xa))
    dx = 4e-12 + 16 * EPS * max(abs(xa), abs(xb))
    # (1e-300: in the sub-normal range the interpolant underflows to zero
    # over a whole stretch and any point of it is a root in floating point)
    tol = slope * dx + 32 * (
        math.ulp(ya) + math.ulp(yb) + math.ulp(float(target))) + 1e-300
    return abs(L - target) <= F(tol)


def check_regrid(case):
    regrid = tree.mod('regrid').regrid
    x = np.array(case['x'], dtype='float64')
    y = np.array(case['y'], dtype='float64')
    h = case['h']
    got = guarded(lambda: list(regrid(x, y, h)))
    got = [(int(k), float(xr)) for k, xr in got]
    # the caller regrids the same arrays again (another pass, another step
    # tried before): the crossings of the record it holds are still those
    again = guarded(lambda: list(regrid(x, y, h)))
    again = [(int(k), float(xr)) for k, xr in again]
    if again != got:
        raise Violation(
            'second-call-on-the-same-arrays-differs',
            'first {} then {}'.format(got[:6], again[:6]))
    got_levels = [k for k, _ in got]
    labels = {case['regime']}
    if case['regime'] == 'lattice':
        choices = [[mc.ceil_frac(F(v) / F(h))] for v in case['y']]
    else:
        choices = mc.ambiguous_ceils(case['y'], h)
    n_ambiguous = sum(len(c) > 1 for c in choices)
    if n_ambiguous <= 10:
        readings = itertools.product(*choices)
    else:
        # too many ambiguous samples to enumerate mixed readings: accept
        # the two uniform ones (every ambiguous sample read as rounded
        # quotient, or every one read exactly)
        readings = [[c[0] for c in choices], [c[-1] for c in choices]]
    candidates = [
        list(ceils) for ceils in readings
        if mc.levels_from_ceils(list(ceils)) == got_levels
    ]
    if not candidates:
        exact = mc.levels_from_ceils([c[-1] for c in choices])
        if len(got_levels) < len(exact):
            sig = 'crossing-missing'
        elif len(got_levels) > len(exact):
            sig = 'crossing-extra'
        elif sorted(got_levels) == sorted(exact):
            sig = 'crossing-order'
        else:
            sig = 'crossing-wrong-level'
        raise Violation(sig, 'reported levels {} expected {}'.format(
            got_levels[:40], exact[:40]))
    if any(len(c) > 1 for c in choices):
        labels.add('ambiguous-sample')
    # attribute each reported crossing to its pair and validate position
    # (with an ambiguous sample several attributions reproduce the level
    # sequence; one of them must validate every position)
    failure = None
    for matched in candidates:
        pairs = []
        for i in range(len(matched) - 1):
            pairs.extend([i] * abs(matched[i + 1] - matched[i]))
        assert len(pairs) == len(got)
        failure = None
        for (k, xr), pair in zip(got, pairs):
            if not math.isfinite(xr) or not _residual_ok(case, k, xr, pair):
                failure = 'level {} reported at x={!r} for pair {}'.format(
                    k, xr, pair)
                break
        if failure is None:
            break
    if failure is not None:
        raise Violation('crossing-position', failure)
    # non-trivial rule
    Fh = F(h)
    on_level = any((F(v) / Fh).denominator == 1 for v in case['y'])
    multi = len(set(got_levels)) < len(got_levels)
    flat_on = any(
        a == b and (F(a) / Fh).denominator == 1
        for a, b in zip(case['y'][:-1], case['y'][1:]))
    if on_level:
        labels.add('sample-on-level')
    if multi:
        labels.add('level-crossed-twice')
    if flat_on:
        labels.add('flat-on-level')
    if got_levels and (on_level or multi or flat_on):
        labels.add('nontrivial')
    if not got_levels:
        labels.add('no-crossing')
    if max(abs(v) for v in case['x']) > 1e9:
        labels.add('epoch-abscissae')
    return labels


@st.composite
def mapping_cases(draw):
    series = draw(st.lists(lattice_cases(), min_size=1, max_size=4))
    h = series[0]['h']
    return {'h': h, 'series': [{'x': s['x'], 'y': s['y']} for s in series]}


def check_mapping(case):
    build = tree.mod('fit_offsets').build_head_mapping
    h = case['h']
    series = [
        (np.array(s['x'], dtype='float64'), np.array(s['y'], dtype='float64'))
        for s in case['series']
    ]
    got = guarded(lambda: build(series, h))
    expected = {}
    multi = False
    for sid, s in enumerate(case['series']):
        means = mc.mean_crossings(s['x'], s['y'], h)
        per_level = {}
        for k, _, _ in mc.crossings(s['x'], s['y'], h):
            per_level[k] = per_level.get(k, 0) + 1
        multi = multi or any(v > 1 for v in per_level.values())
        for k, xm in means.items():
            expected.setdefault(k, {})[sid] = xm
    got_d = {}
    for k, seq in got.items():
        for sid, tm in seq:
            if sid in got_d.setdefault(int(k), {}):
                raise Violation('mapping-duplicate-series',
                                'level {} series {}'.format(k, sid))
            got_d[int(k)][sid] = float(tm)
    if {k: set(v) for k, v in got_d.items()} != {
            k: set(v) for k, v in expected.items()}:
        raise Violation('mapping-keys', 'levels/series differ')
    for k, row in expected.items():
        for sid, xm in row.items():
            s = case['series'][sid]
            scale = max(abs(v) for v in s['x'])
            span = s['x'][-1] - s['x'][0]
            tol = 1e-9 * span + 64 * EPS * scale + 1e-11
            if abs(F(got_d[k][sid]) - xm) > F(tol):
                raise Violation(
                    'mapping-mean',
                    'level {} series {} got {!r} expected {!r}'.format(
                        k, sid, got_d[k][sid], float(xm)))
    labels = set()
    if multi:
        labels.add('nontrivial')
        labels.add('repeated-level-averaged')
    return labels


PARTS = [
    Part('regrid', check_regrid, strategy=strategy,
         budget={'quick': 750, 'thorough': 20000},
         describe='regrid.regrid against the exact Fraction model'),
    Part('head_mapping', check_mapping,
         strategy=lambda tier: mapping_cases(),
         budget={'quick': 150, 'thorough': 2500},
         describe='fit_offsets.build_head_mapping: per-level means'),
    Part('regrid_fuzz', check_regrid, fuzz_of='regrid', fuzz_runs=60000,
         shards={'quick': 0, 'thorough': 4},
         describe='atheris campaign over the regrid strategy and oracle '
                  '(thorough tier only)'),
]
