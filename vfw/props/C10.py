"""C10 -- loaded series reproduce the source data on one uniform grid."""

import math
from fractions import Fraction as F

from hypothesis import strategies as st

from vfw import dataset, gen_records, model_load
from vfw.core import Part, Violation, Reject, guarded

LEVEL = 'exploration'
RULE = (
    'Triples of input files: rainfall on a uniform step (90 s - 1 d, incl. 115 s and 229 s); water '
    'level on the same, a finer (step/2,/3,/4), a coarser (x2, x3) or an '
    'unaligned step (ET optionally with extra rows between grid instants), '
    'starting before or after the rain record, with 0-3 '
    'gaps anywhere (including at the ends and gaps leaving a one-sample '
    'stretch); values on the dyadic lattice or arbitrary floats; rows of each '
    'file shuffled in 30% of cases; five fixed-offset time zones, and in 1 case of 6 a zone with daylight saving '
    '(Europe/Berlin, America/New_York, Australia/Lord_Howe with its half-hour shift) with the record laid across the spring transition; 20% of cases through '
    'the command line on files (with / without byte-order mark, LF / CRLF); in 5 of 7 cases the numbers of the '
    'files are spelled another way (12 for 12.0, 1.25e+1, 1.25E+1, +12.5, 12.5000 - only where the shortest '
    'decimal has <= 15 digits). Oracle: an independent '
    'model (Fractions) of the grid, the copied rain / ET rows, linear '
    'interpolation of the bracketing samples (exact where the instant '
    'coincides with a sample, rel 1e-9 otherwise), absence of level and '
    'label strictly inside gaps, labels constant between and distinct across '
    'gaps. Inputs with fewer than two rainfall timestamps inside the '
    'water-level span are outside the domain (counted as rejected). '
    'Non-trivial: a gap containing >= 1 grid instant, or an unaligned / '
    'different-step water-level record; distinct = SHA-1 of the case.'
)
ASSUMPTIONS = ['pytz renders the harness-side timestamps (fixed-offset zones)']


@st.composite
def cases(draw):
    dt, tz, t0 = draw(gen_records.header())
    n = draw(st.integers(2, 25))
    dst = draw(st.integers(0, 5)) == 0
    if dst:
        # files written in a zone with daylight saving, the record laid
        # across the spring transition (the files may start on either side)
        tz, transition = draw(st.sampled_from(gen_records.DST_ZONES))
        t0 = transition - draw(st.integers(-2, n + 3)) * dt
    rain = [[i, draw(st.integers(0, 640)) / 64.0] for i in range(n)]
    mode = draw(st.sampled_from(
        ['aligned', 'aligned', 'finer', 'coarser', 'unaligned']))
    if mode == 'aligned':
        w, off = dt, 0
    elif mode == 'finer':
        w, off = dt // draw(st.sampled_from([2, 3, 4])), 0
    elif mode == 'coarser':
        w, off = dt * draw(st.sampled_from([2, 3])), draw(
            st.sampled_from([0, 0, dt]))
    else:
        w = draw(st.sampled_from([dt, dt // 2, 700, 1111, dt + 60]))
        off = draw(st.integers(1, w - 1))
    start_idx = draw(st.integers(-3, max(n - 3, 0)))
    start = start_idx * dt + off
    span_steps = draw(st.integers(2, n + 6))
    count = max(2, (span_steps * dt) // w + 1)
    count = min(count, 120)
    float_values = draw(st.booleans())
    if float_values:
        values = [draw(st.floats(-500.0, 500.0)) for _ in range(count)]
    else:
        values = [draw(st.integers(-4000, 4000)) / 8.0 for _ in range(count)]
    removed = set()
    for _ in range(draw(st.sampled_from([0, 0, 1, 2, 3]))):
        if count < 4:
            break
        g0 = draw(st.integers(1, count - 2))
        removed.update(range(g0, min(g0 + draw(
            st.sampled_from([1, 1, 2, 4])), count - 1)))
    wl = [[start + k * w, values[k]] for k in range(count)
          if k not in removed]
    lo = min(0, start // dt) - 2
    hi = max(n, (start + count * w) // dt) + 3
    et = [[i, draw(st.integers(0, 64)) / 64.0] for i in range(lo, hi)]
    if draw(st.integers(0, 3)) == 0:
        # ET logged on a finer step than rainfall (or a stray extra record):
        # rows between grid instants belong to no grid step
        extra_at = draw(st.lists(st.integers(lo, hi - 2), min_size=1,
                                 max_size=6, unique=True))
        et += [[i + 0.5, draw(st.integers(0, 64)) / 64.0] for i in extra_at]
        et.sort()
    case = {'dt': dt, 't0': t0, 'tz': tz, 'rain': rain, 'et': et, 'wl': wl,
            'mode': mode}
    if draw(st.integers(0, 9)) < 2:
        case['cli'] = True
        case['bom'] = draw(st.booleans())
        case['crlf'] = draw(st.booleans())
    if draw(st.integers(0, 9)) < 3:
        case['order'] = {
            'rain': draw(st.permutations(range(len(rain)))),
            'et': draw(st.permutations(range(len(et)))),
            'wl': draw(st.permutations(range(len(wl)))),
        }
    # the spelling of the numbers in the three files
    numtext = draw(st.sampled_from(dataset.NUMBER_TEXTS + [None]))
    if numtext:
        case['numtext'] = numtext
    return case


def check(case):
    try:
        want = model_load.expected(case)
    except model_load.Refused as ref:
        raise Reject('outside-domain: ' + str(ref).split(' for ')[0]) from ref
    if case.get('cli'):
        import sqlite3
        with dataset.scratch_dir() as directory:
            db = directory + '/data.sqlite3'
            guarded(dataset.cli_load, case, db, directory)
            connection = sqlite3.connect(db)
            try:
                labels = compare(case, want, connection)
            finally:
                connection.close()
        labels.add('via-cli')
        if case.get('bom'):
            labels.add('byte-order-mark')
        return labels
    connection = guarded(dataset.load_memory, case)
    try:
        return compare(case, want, connection)
    finally:
        connection.close()


def compare(case, want, connection):
    fetch = lambda sql: dataset.fetch(connection, sql)  # noqa: E731
    tg = fetch('SELECT time_step_s, source_time_zone FROM time_grid')
    if tg != [(want['step'], case['tz'])]:
        raise Violation('time-grid-row', repr(tg))
    grid = fetch('SELECT epoch, data_interval FROM grid_time ORDER BY epoch')
    if [e for e, _ in grid] != want['grid']:
        raise Violation(
            'grid-not-rain-timestamps-in-span-plus-closing',
            'got {} want {}'.format([e for e, _ in grid][:12],
                                    want['grid'][:12]))
    rain = fetch('SELECT from_epoch, thru_epoch, rainfall_intensity_mm_h '
                 'FROM rainfall_intensity ORDER BY from_epoch')
    if rain != want['rain']:
        raise Violation('rain-rows-differ', 'got {} want {}'.format(
            rain[:6], want['rain'][:6]))
    et = fetch('SELECT from_epoch, thru_epoch, evapotranspiration_mm_h '
               'FROM evapotranspiration ORDER BY from_epoch')
    if et != want['et']:
        raise Violation('et-rows-differ', 'got {} want {}'.format(
            et[:6], want['et'][:6]))
    water = dict(fetch('SELECT epoch, zeta_mm FROM water_level'))
    labels = dict(grid)
    if set(water) != set(want['water']):
        extra = sorted(set(water) - set(want['water']))
        missing = sorted(set(want['water']) - set(water))
        if extra and all(t in want['in_gap'] for t in extra):
            raise Violation('water-level-inside-gap', repr(extra[:5]))
        raise Violation('water-level-instants-differ',
                        'extra {} missing {}'.format(extra[:5], missing[:5]))
    wl_samples = dict((case['t0'] + off, v) for off, v in case['wl'])
    for t, value in want['water'].items():
        got = water[t]
        if t in wl_samples:
            # the value travels as decimal text through SQLite's own
            # text-to-double conversion, which is not correctly rounded for
            # every input (17 digits, extreme exponents): allow 4 ulp, but
            # demand exactness on the dyadic lattice (short texts)
            short = (value * 8).denominator == 1  # lattice value
            slack = 0 if short else 4 * math.ulp(float(value))
            if abs(F(got) - value) > F(slack):
                raise Violation('water-level-sample-not-copied',
                                't={} got {!r} want {!r}'.format(
                                    t, got, float(value)))
        else:
            tol = 1e-9 * max(abs(float(value)), 1.0)
            if not math.isfinite(got) or abs(F(got) - value) > F(tol):
                raise Violation('water-level-not-interpolated',
                                't={} got {!r} want {!r}'.format(
                                    t, got, float(value)))
    for t in want['in_gap']:
        if labels.get(t) is not None:
            raise Violation('label-inside-gap', repr(t))
    instants = sorted(want['water'])
    for t in instants:
        if labels[t] is None:
            raise Violation('no-label-on-valid-instant', repr(t))
    for ta, tb in zip(instants[:-1], instants[1:]):
        separated = model_load.gap_between(want['gaps'], ta, tb)
        if separated and labels[ta] == labels[tb]:
            raise Violation('same-label-across-gap', repr((ta, tb)))
        if not separated and labels[ta] != labels[tb]:
            raise Violation('label-changes-without-gap', repr((ta, tb)))
    out = {case['mode']}
    gap_with_instant = bool(want['in_gap'])
    if gap_with_instant:
        out.add('gap-with-grid-instant')
    if want['gaps']:
        out.add('has-gap')
    if 'order' in case:
        out.add('shuffled')
    if case.get('numtext'):
        out.add('numbers-written-' + case['numtext'])
    if case['tz'] in dict(gen_records.DST_ZONES):
        out.add('zone-with-daylight-saving')
    if gap_with_instant or case['mode'] != 'aligned':
        out.add('nontrivial')
    return out


PARTS = [
    Part('load', check, strategy=lambda tier: cases(),
         budget={'quick': 375, 'thorough': 5000},
         describe='load.load_data against the independent grid model'),
]
