"""C13 -- every master-curve row traces back to a classified interval and
its own data; the level grid covers the observed range."""

import math

from hypothesis import strategies as st

from vfw import gen_truth, gen_records, model_master
from vfw.core import Part, Violation, Reject, guarded
from vfw.pipeline import Workflow
from vfw.props.C06 import read_curve

LEVEL = 'exploration'
RULE = (
    'Noisy G-truth datasets (recession samples perturbed by +-1/8 mm so '
    'pieces do not coincide; storms of different depths) and G-scenario '
    'datasets x grid steps (1, 0.5, 0.25, 2, 0.1, 0.3, 2.5; water levels are '
    'lattice values so min/step and max/step are often integers) through the '
    'CLI. Oracle (harness-side; foreign keys are off on CLI connections): '
    'rising_interval rows are paired rises, recession_interval rows are '
    'interstorm intervals; every crossing row equals the exact crossing model '
    'applied to that interval\'s own data - a recession: its samples between '
    'start and thru re-based to its first sample; a rise: the segment (0, '
    'initial level) -> (depth of ITS storm, final level); every zeta_number '
    'is in discrete_zeta; discrete_zeta is a contiguous range containing '
    'every k with min <= k*step < max and at most one cell beyond. A curve '
    'with an ambiguous main body on the model side is skipped (counted). '
    'Non-trivial: >= 2 intervals in each curve and two storms of different '
    'depth; distinct = SHA-1 of the case.'
)
ASSUMPTIONS = ['pairing and interstorm tables are as checked by C01-C04']

GRIDS = ['1.0', '0.5', '0.25', '2.0', '1.0', '0.1', '0.3', '2.5']


@st.composite
def cases(draw, tier):
    kind = draw(st.sampled_from(['truth', 'truth', 'truth', 'scenario']))
    if kind == 'truth':
        record = draw(gen_truth.truth_records(noise=True))
    else:
        record = draw(gen_records.scenario_records(
            max_events=14, min_events=6, allow_gaps=draw(st.booleans())))
    record['grid'] = draw(st.sampled_from(GRIDS))
    record['regrid'] = draw(st.sampled_from([None, None, '0.5', '2.0', '1.0']))
    if record['regrid'] == record['grid']:
        record['regrid'] = None
    return record


def check(case):
    h = float(case['grid'])
    labels = {case.get('gen', '?'), 'grid-' + case['grid']}
    with Workflow(case) as wf:
        try:
            wf.load()
        except ValueError as exc:
            raise Reject('load-refused') from exc
        guarded(wf.classify)
        guarded(wf.zeta_grid, case['grid'])
        connection = wf.connect()
        try:
            check_grid(connection, h)
            rises, storm_of = model_master.rise_series(connection)
            recs = model_master.recession_series(connection)
            plans = {}
            for which, series in (('rise', rises), ('recession', recs)):
                table, ambiguous = model_master.crossing_table(series, h)
                members, levels, ok = model_master.main_body(table)
                plans[which] = (series, table, ambiguous, members, levels, ok)
        finally:
            connection.close()
        done = []
        for which, run in (('rise', wf.rise), ('recession', wf.recession)):
            if not plans[which][5]:
                labels.add(which + '-main-body-ambiguous')
                continue
            guarded(run)
            done.append(which)
        if not done:
            raise Reject('both main bodies ambiguous')
        if case.get('regrid'):
            # set-zeta-grid a second time (refused today): the curves must
            # belong to whatever grid the file then declares
            try:
                wf.zeta_grid(case['regrid'])
            except Exception:  # pylint: disable=broad-except
                labels.add('regrid-refused')
            else:
                labels.add('regrid-accepted')
            connection = wf.connect()
            try:
                (h_now,) = connection.execute(
                    'SELECT grid_interval_mm FROM zeta_grid').fetchone()
            finally:
                connection.close()
            if h_now != h:
                # the grid changed under the curves: recompute what the
                # intervals' own data say on the new grid
                h = h_now
                for which, series in (('rise', rises), ('recession', recs)):
                    table, ambiguous = model_master.crossing_table(series, h)
                    members, levels, ok = model_master.main_body(table)
                    plans[which] = (series, table, ambiguous, members,
                                    levels, ok)
        connection = wf.connect()
        try:
            for which in done:
                verify(connection, which, h, plans[which])
            depths = {round(float(s['depth']), 9) for s in rises.values()}
            if (len(done) == 2 and len(depths) >= 2 and all(
                    len(read_curve(connection, w)[0]) >= 2 for w in done)):
                labels.add('nontrivial')
        finally:
            connection.close()
    return labels


def check_grid(connection, h):
    numbers = [k for (k,) in connection.execute(
        'SELECT zeta_number FROM discrete_zeta ORDER BY zeta_number')]
    (step,) = connection.execute(
        'SELECT grid_interval_mm FROM zeta_grid').fetchone()
    if step != h:
        raise Violation('grid-step-not-recorded', repr(step))
    first, stop = model_master.grid_range(connection, h)
    if not numbers:
        if stop > first:
            raise Violation('grid-empty', '')
        return
    if numbers != list(range(numbers[0], numbers[-1] + 1)):
        raise Violation('grid-not-contiguous', repr(numbers[:10]))
    needed = set(range(first, stop))
    if not needed <= set(numbers):
        raise Violation(
            'grid-does-not-cover-observed-range',
            'missing {}'.format(sorted(needed - set(numbers))[:6]))
    if numbers[0] < first - 1 or numbers[-1] > stop:
        raise Violation('grid-extends-more-than-one-cell-beyond',
                        repr((numbers[0], numbers[-1], first, stop)))


def verify(connection, which, h, plan):
    series, table, ambiguous, members, levels, _ = plan
    intervals, per_level = read_curve(connection, which)

    def mismatch(sig, detail):
        if ambiguous:
            raise Reject('decimal-step-ambiguous-level')
        raise Violation(sig, detail)

    if which == 'rise':
        allowed = {r for (r,) in connection.execute(
            'SELECT interval_start_epoch FROM zeta_interval_storm')}
        kind = 'paired rise'
    else:
        allowed = {r for (r,) in connection.execute(
            "SELECT start_epoch FROM zeta_interval "
            "WHERE interval_type = 'interstorm'")}
        kind = 'interstorm interval'
    stray = set(intervals) - allowed
    if stray:
        raise Violation('{}-interval-not-a-classified-interval'.format(which),
                        '{} is not a {}'.format(sorted(stray)[:4], kind))
    zeta_numbers = {k for (k,) in connection.execute(
        'SELECT zeta_number FROM discrete_zeta')}
    for k in per_level:
        if k not in zeta_numbers:
            raise Violation('{}-level-not-in-grid'.format(which), repr(k))
    raw = 'rising_interval_zeta' if which == 'rise' else \
        'recession_interval_zeta'
    col = 'mean_crossing_depth_mm' if which == 'rise' else \
        'mean_crossing_time'
    rows = connection.execute(
        'SELECT start_epoch, zeta_number, {} FROM {}'.format(col, raw)
    ).fetchall()
    if set(intervals) != members:
        mismatch('{}-intervals-not-main-body'.format(which),
                 'got {} expected {}'.format(sorted(intervals)[:6],
                                             sorted(members)[:6]))
    seen = set()
    for start, k, value in rows:
        if start not in intervals:
            raise Violation('{}-crossing-row-without-interval'.format(which),
                            repr(start))
        want = table.get(k, {}).get(start)
        if want is None:
            mismatch('{}-crossing-not-from-own-data'.format(which),
                     'interval {} does not cross level {}'.format(start, k))
        span = max(abs(v) for v in series[start]['x']) + 1.0
        if abs(value - want) > 1e-9 * span + 1e-9:
            mismatch(
                '{}-crossing-not-from-own-data'.format(which),
                'interval {} level {}: stored {!r}, from its own data '
                '{!r}'.format(start, k, value, want))
        seen.add((start, k))
    expected_rows = {(s, k) for k in levels for s in table[k]
                     if s in members}
    if seen != expected_rows:
        mismatch('{}-crossing-rows-differ'.format(which),
                 'missing {} extra {}'.format(
                     sorted(expected_rows - seen)[:4],
                     sorted(seen - expected_rows)[:4]))


PARTS = [
    Part('datasets', check, strategy=lambda tier: cases(tier),
         budget={'quick': 50, 'thorough': 800},
         describe='master-curve tables traced back to intervals and data'),
]
