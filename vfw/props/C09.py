"""C09 -- the reference water level is the origin of the master curve."""

import shutil
import sqlite3
from decimal import Decimal

from hypothesis import strategies as st

from vfw import gen_truth, model_master, dbdump, dataset
from vfw.core import Part, Violation, Reject, guarded
from vfw.pipeline import Workflow
from vfw.props.C06 import read_curve

LEVEL = 'exploration'
RULE = (
    'G-truth datasets x grid steps {1, 0.5, 0.25, 0.1, 0.2, 0.3, 0.7, 2.5, 5} '
    'x EVERY level k of the assembled curve as reference (finite sweep, '
    'exhaustive per dataset and curve in the thorough tier; the quick tier '
    'caps the sweep at 24 evenly spread levels per curve plus the levels at and next to 0 mm), passed on the command line as '
    'repr(k*step) and as the exact decimal product (e.g. -37.9); off-grid '
    'references (k+f)*step with f in {0.1 .. 0.9} and, at the level farthest '
    'from 0 mm, f = 0.01 and -0.002; no reference; one reference run per curve '
    'interrupted (KeyboardInterrupt at a late statement) and then repeated; then the command again on the same file with another reference and with none (accepted => origin at the new reference, refused => file unchanged). Both `rise '
    '-r` and `recession -r`, each on a fresh copy of the classified file. '
    'Oracle: on-grid => the command succeeds, the master curve computed by '
    'the harness from the interval tables (keyed by zeta_number) is 0 at '
    'level k within 1e-9*scale and all differences between levels equal '
    'those of the run without reference; off-grid => ValueError and the '
    'file is unchanged (logical dump); no reference => zero at the highest '
    'level. References outside the assembled curve are not generated. '
    'Non-trivial: the step is not a power of two, or k is negative with '
    'float(k*step)/step != k; counted per (dataset, curve, reference); '
    'distinct = SHA-1 of the case.'
)
ASSUMPTIONS = ['assembly without reference is as checked by C05/C06']

GRIDS = ['1.0', '0.5', '0.25', '0.1', '0.2', '0.3', '0.7', '2.5', '5.0',
         '0.1', '0.2']


@st.composite
def cases(draw, tier):
    record = draw(gen_truth.truth_records(
        noise=False, min_storms=4, max_storms=7, curve_len=40))
    record['grid'] = draw(st.sampled_from(GRIDS))
    record['fractions'] = draw(st.lists(
        st.sampled_from([0.1, 0.25, 0.5, 0.75, 0.9]), min_size=2,
        max_size=3))
    record['forms'] = 'both' if tier == 'thorough' else draw(
        st.sampled_from(['repr', 'decimal', 'alternate']))
    return record


def master(connection, which):
    _, per_level = read_curve(connection, which)
    return {k: sum(r.values()) / len(r) for k, r in per_level.items()}


def check(case):
    grid = case['grid']
    h = float(grid)
    labels = {'grid-' + grid}
    counts = {'on-grid': 0, 'nontrivial-refs': 0, 'off-grid': 0}
    with Workflow(case) as wf:
        guarded(wf.load)
        guarded(wf.classify)
        guarded(wf.zeta_grid, grid)
        base = wf.copy_db('base.sqlite3')
        connection = wf.connect()
        try:
            plans = {}
            rises, _ = model_master.rise_series(connection)
            recs = model_master.recession_series(connection)
            for which, series in (('rise', rises), ('recession', recs)):
                table, amb = model_master.crossing_table(series, h)
                plans[which] = model_master.main_body(table)[2]
        finally:
            connection.close()
        for which in ('rise', 'recession'):
            if not plans[which]:
                labels.add(which + '-main-body-ambiguous')
                continue
            run = wf.rise if which == 'rise' else wf.recession
            shutil.copyfile(base, wf.db)
            guarded(run)
            connection = wf.connect()
            plain = master(connection, which)
            connection.close()
            top = max(plain)
            scale = max(abs(v) for v in plain.values()) + 1.0
            if abs(plain[top]) > 1e-9 * scale:
                raise Violation('{}-origin-not-highest-level'.format(which),
                                repr(plain[top]))
            sweep = sorted(plain)
            if case['forms'] != 'both' and len(sweep) > 24:
                # quick tier: at most 24 levels per curve (ends, and an
                # even stride in between); thorough sweeps every level
                stride = len(sweep) / 24.0
                # (always with the levels at and next to 0 mm, where a
                # reference of 0 or -0.0 is an unexpected equality)
                sweep = sorted({sweep[int(i * stride)] for i in range(24)}
                               | {sweep[0], sweep[-1]}
                               | ({-1, 0, 1} & set(sweep)))
            for n, k in enumerate(sweep):
                exact = str(Decimal(k) * Decimal(grid))
                forms = {'repr': [repr(k * h)], 'decimal': [exact],
                         'both': [repr(k * h), exact],
                         'alternate': [repr(k * h) if n % 2 else exact]
                         }[case['forms']]
                for text in forms:
                    shutil.copyfile(base, wf.db)
                    try:
                        run(text)
                    except ValueError as exc:
                        raise Violation(
                            '{}-on-grid-reference-refused'.format(which),
                            'step {} reference {} (k={}): {}'.format(
                                grid, text, k, exc)) from exc
                    except Exception as exc:  # pylint: disable=broad-except
                        guarded(_reraise, exc)
                    connection = wf.connect()
                    shifted = master(connection, which)
                    connection.close()
                    if set(shifted) != set(plain):
                        raise Violation(
                            '{}-reference-changes-levels'.format(which), text)
                    if abs(shifted[k]) > 1e-9 * scale:
                        zero = min(shifted, key=lambda q: abs(shifted[q]))
                        raise Violation(
                            '{}-reference-level-not-origin'.format(which),
                            'step {} reference {} (k={}): curve is {!r} '
                            'there, zero at level {}'.format(
                                grid, text, k, shifted[k], zero))
                    for q in plain:
                        d0 = plain[q] - plain[k]
                        d1 = shifted[q] - shifted[k]
                        if abs(d0 - d1) > 1e-9 * scale:
                            raise Violation(
                                '{}-reference-changes-shape'.format(which),
                                repr((q, d0, d1)))
                    counts['on-grid'] += 1
                    if (h not in (1.0, 0.5, 0.25, 2.0)) or (
                            k < 0 and float(text) / h != k):
                        counts['nontrivial-refs'] += 1
            # an interrupted attempt (Ctrl-C while the curve is being stored)
            # must not prevent assembling the curve with that reference
            from vfw import faults
            k = sweep[len(sweep) // 2]
            text = repr(k * h)
            shutil.copyfile(base, wf.db)
            plan = faults.Plan('count')
            with faults.injected(plan):
                run(text)
            n_statements = plan.count
            shutil.copyfile(base, wf.db)
            at = max(1, n_statements - 1 - int(
                case['fractions'][0] * min(n_statements - 1, 40)))
            plan = faults.Plan('fault', k=at, exception='interrupt')
            try:
                with faults.injected(plan):
                    run(text)
            except (Exception, KeyboardInterrupt):  # pylint: disable=broad-except
                pass
            try:
                run(text)
            except Exception as exc:  # pylint: disable=broad-except
                raise Violation(
                    '{}-reference-run-fails-after-interrupted-attempt'.format(
                        which),
                    'step {} reference {}: {!r}'.format(grid, text, exc)
                ) from exc
            connection = wf.connect()
            retried = master(connection, which)
            connection.close()
            if set(retried) != set(plain) or abs(
                    retried.get(k, 1e30)) > 1e-9 * scale:
                raise Violation(
                    '{}-reference-level-not-origin:after-interrupt'.format(
                        which),
                    'step {} reference {}'.format(grid, text))
            counts['interrupted'] = counts.get('interrupted', 0) + 1
            # the command repeated on the same file with another reference,
            # and with none (refused today: the curve is already stored).
            # A run that reports success has assembled the curve with the
            # reference it was given; a refused one leaves the curve alone.
            others = [q for q in (sweep[0], sweep[-1]) if q != k][:1]
            for k2 in others + [None]:
                before = _dump(wf.db)
                try:
                    if k2 is None:
                        run()
                    else:
                        run(repr(k2 * h))
                except Exception:  # pylint: disable=broad-except
                    if _dump(wf.db) != before:
                        raise Violation(
                            '{}-refused-repeat-changed-file'.format(which),
                            'step {} second reference {}'.format(grid, k2))
                    labels.add('repeat-refused')
                    continue
                labels.add('repeat-accepted')
                connection = wf.connect()
                again = master(connection, which)
                connection.close()
                origin = max(plain) if k2 is None else k2
                if set(again) != set(plain) or abs(
                        again.get(origin, 1e30)) > 1e-9 * scale:
                    raise Violation(
                        '{}-reference-level-not-origin:repeated-command'
                        .format(which),
                        'step {}: assembled with reference level {}, then '
                        'with {}: the curve is {!r} at the latter'.format(
                            grid, k, origin, again.get(origin)))
            # off-grid references
            shutil.copyfile(base, wf.db)
            before = _dump(wf.db)
            ks = sorted(plain)
            far = max(ks, key=abs)  # the level farthest from 0 mm
            trials = [(ks[(i * 7) % len(ks)], f)
                      for i, f in enumerate(case['fractions'])]
            # clearly off the grid, but by little: 1% and 0.2% of a step
            trials += [(far, 0.01), (far, -0.002)]
            for k, f in trials:
                text = repr((k + f) * h)
                try:
                    run(text)
                except ValueError:
                    pass
                except Exception as exc:  # pylint: disable=broad-except
                    guarded(_reraise, exc)
                else:
                    raise Violation(
                        '{}-off-grid-reference-accepted'.format(which),
                        'step {} reference {}'.format(grid, text))
                if _dump(wf.db) != before:
                    raise Violation(
                        '{}-refused-reference-changed-file'.format(which),
                        text)
                counts['off-grid'] += 1
    if counts['on-grid'] == 0:
        raise Reject('both main bodies ambiguous')
    labels.add('refs-on-grid:{}'.format(min(counts['on-grid'] // 20, 5) * 20))
    if counts['nontrivial-refs']:
        labels.add('nontrivial')
    return labels


def _reraise(exc):
    raise exc


def _dump(path):
    connection = sqlite3.connect(path)
    try:
        return dbdump.dump(connection)
    finally:
        connection.close()


PARTS = [
    Part('references', check, strategy=lambda tier: cases(tier),
         budget={'quick': 3, 'thorough': 6},
         shards={'quick': 8, 'thorough': 16},
         describe='every level of the curve as reference, off-grid refusals'),
]
