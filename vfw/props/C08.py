"""C08 -- master curves do not depend on presentation order, on a constant
shift of an interval's own axis, or on the internal reference; intervals
not connected to the main body are left out, the main body is complete."""

import numpy as np
from hypothesis import strategies as st

from vfw import gen_series
from vfw.core import Part, Violation, Reject
from vfw.props.C05 import run_gsto

LEVEL = 'exploration'
RULE = (
    'Function level: a connected main group of 2-7 series (falling / bumpy '
    '/ rising) plus 0-2 planted groups in a disjoint level band, each '
    'strictly smaller than the main group both in levels and in series; '
    'the collection is presented in a generated permutation and every '
    'series gets its own constant shift on its abscissa (the same ordinate '
    'arrays are handed to both calls, as a caller holding its interval objects would). Collections whose '
    'main body is not strictly largest by both counts are outside the domain '
    '(rejected, counted). Oracle: the returned indices are exactly the main '
    'body (mapped back through the permutation) in both presentations; '
    'offsets agree up to one common shift (1e-9 relative to the abscissa '
    'span); per-level means of offset + crossing relative to the top level '
    'are unchanged. Table level (part tables): planted datasets plus a '
    'far-away group through the CLI (see check_tables). Non-trivial: '
    'non-identity permutation, >= 1 non-zero axis shift and a planted '
    'disconnected group of >= 2 series; distinct = SHA-1 of the case.'
)
ASSUMPTIONS = ['crossing model of C12 decides components on the model side']


@st.composite
def bridge_group(draw, h):
    """Four series whose overlap graph is a chain closed by a non-monotone
    one: B first creeps up over a level shared only with Y, then falls
    through levels shared with X, which reaches down to A.  In the order
    the code visits levels, B's later levels bridge two groups that have
    already formed."""
    u = int(round(h * 8))            # lattice units per level
    base = draw(st.integers(-20, 20)) * u
    frac = draw(st.integers(1, max(1, u - 1))) if u > 1 else 0

    def lv(levels, extra=0):
        return (base + int(levels * u) + extra) / 8.0

    top_b = 6 * u + max(1, u // 8)
    a = [lv(3), lv(1)]
    x = [lv(6, -max(1, u // 4)) if u > 3 else lv(5.5), lv(1.5)]
    b = [lv(6, -max(1, u // 2)) if u > 1 else lv(5.5),
         (base + top_b) / 8.0, lv(4.5)]
    y = [lv(8, -1), lv(6, -max(1, u // 2)) if u > 1 else lv(5.5)]
    dt = draw(st.sampled_from([600, 1800, 3600]))
    out = []
    for ys in (a, b, x, y):
        x0 = draw(st.sampled_from([0, 1400000000, 86400]))
        out.append({'x': [float(x0 + k * dt) for k in range(len(ys))],
                    'y': ys})
    return out


@st.composite
def cases(draw):
    h = draw(st.sampled_from(gen_series.STEPS))
    n_main = draw(st.integers(2, 7))
    shape = draw(st.sampled_from(['falling', 'falling', 'bumpy', 'rising']))
    if draw(st.integers(0, 3)) == 0:
        main = draw(bridge_group(h))
    else:
        main = draw(gen_series.connected_group(h, n_main, shape=shape))
    groups = []
    for g in range(draw(st.sampled_from([0, 1, 1, 2]))):
        n_g = draw(st.integers(1, max(1, n_main - 1)))
        base = (400.0 + 300.0 * g) * draw(st.sampled_from([1, -1]))
        groups.append(draw(gen_series.connected_group(
            h, n_g, band=(base, base + 20.0), shape=shape)))
    collection = list(main)
    membership = [0] * len(main)
    for gi, grp in enumerate(groups):
        # planted groups must not touch the main band
        collection.extend(grp)
        membership.extend([gi + 1] * len(grp))
    perm = list(draw(st.permutations(range(len(collection)))))
    shifts = [draw(st.sampled_from([0.0, 86400.0, -3600.0, 1.4e9, 12345.0]))
              for _ in collection]
    return {'h': h, 'series': collection, 'membership': membership,
            'perm': perm, 'shifts': shifts}


def relative_curve(mapping, offsets):
    """{level: mean(offset + crossing)} minus its value at the top level."""
    curve = {}
    for level, row in mapping.items():
        vals = [offsets[int(s)] + float(c) for s, c in row]
        curve[int(level)] = sum(vals) / len(vals)
    top = max(curve)
    return {k: v - curve[top] for k, v in curve.items()}


def check(case):
    h = case['h']
    collection = case['series']
    table = gen_series.crossing_table(collection, h)
    comps = gen_series.components(table)
    main_ids = {i for i, g in enumerate(case['membership']) if g == 0}
    main = [c for c in comps if c[0] & main_ids]
    if len(main) != 1 or main[0][0] != main_ids:
        raise Reject('main group not one component')
    others = [c for c in comps if not (c[0] & main_ids)]
    if any(len(c[1]) >= len(main[0][1]) or len(c[0]) >= len(main[0][0])
           for c in others):
        raise Reject('main body not strictly largest')
    shared = {i for row in table.values() if len(row) >= 2 for i in row}
    if not main_ids <= shared:
        raise Reject('a main series shares no level')
    span = max(s['x'][-1] - s['x'][0] for s in collection)

    # the caller's own interval objects, kept between the two presentations
    ys = [np.array(s['y'], dtype='float64') for s in collection]
    xs = [np.array(s['x'], dtype='float64') for s in collection]
    idx0, off0, map0 = run_gsto(collection, h, arrays=list(zip(xs, ys)))
    if set(idx0) != main_ids:
        missing = sorted(main_ids - set(idx0))
        extra = sorted(set(idx0) - main_ids)
        raise Violation(
            'main-body-incomplete' if missing else 'outsider-included',
            'missing {} extra {}'.format(missing, extra))
    off0 = {int(i): float(o) for i, o in zip(idx0, off0)}

    perm = case['perm']
    moved = [(xs[j] + case['shifts'][j], ys[j]) for j in perm]
    idx1, off1, map1 = run_gsto(None, h, arrays=moved)
    back = {pos: j for pos, j in enumerate(perm)}
    got_ids = {back[int(i)] for i in idx1}
    if got_ids != main_ids:
        raise Violation(
            'main-body-depends-on-presentation',
            'got {} expected {}'.format(sorted(got_ids), sorted(main_ids)))
    off1 = {back[int(i)]: float(o) for i, o in zip(idx1, off1)}
    diffs = [off1[s] - off0[s] for s in sorted(main_ids)]
    if max(diffs) - min(diffs) > 1e-9 * span + 1e-9:
        raise Violation(
            'offsets-depend-on-order-or-axis-shift',
            'differences {}'.format(diffs))
    map1_back = {k: [(back[int(s)], c) for s, c in row]
                 for k, row in map1.items()}
    c0 = relative_curve(map0, off0)
    c1 = relative_curve(map1_back, off1)
    if set(c0) != set(c1):
        raise Violation('master-curve-levels-differ', '')
    worst = max(abs(c0[k] - c1[k]) for k in c0)
    if worst > 1e-9 * span + 1e-9:
        raise Violation('master-curve-depends-on-presentation', repr(worst))
    labels = set()
    if perm != sorted(perm):
        labels.add('permuted')
    if any(case['shifts']):
        labels.add('axis-shift')
    if any(len(c[0]) >= 2 for c in others):
        labels.add('planted-group>=2')
    if others:
        labels.add('disconnected-group')
    if {'permuted', 'axis-shift', 'planted-group>=2'} <= labels:
        labels.add('nontrivial')
    return labels


@st.composite
def component_cases(draw):
    n_heads = draw(st.integers(1, 14))
    n_series = draw(st.integers(1, 8))
    mapping = {}
    for head in draw(st.permutations(range(n_heads))):
        members = draw(st.lists(st.integers(0, n_series - 1), min_size=1,
                                max_size=3, unique=True))
        mapping[str(head)] = members
    return {'mapping': mapping}


def check_components(case):
    from vfw import tree
    from vfw.core import guarded
    fn = tree.mod('fit_offsets').get_connected_components
    mapping = {int(k): set(v) for k, v in case['mapping'].items()}
    got = guarded(fn, dict(mapping))
    want = gen_series.components(
        {k: {s: 0.0 for s in v} for k, v in mapping.items()})
    want_sets = sorted(sorted(c[1]) for c in want)
    got_sets = sorted(sorted(int(k) for k in cc) for cc in got)
    if got_sets != want_sets:
        raise Violation('components-wrong',
                        'got {} expected {}'.format(got_sets, want_sets))
    sizes = [len(cc) for cc in got]
    if sizes != sorted(sizes, reverse=True):
        raise Violation('components-not-sorted-largest-first', repr(sizes))
    labels = set()
    if len(want) >= 2 and any(len(c[1]) >= 3 for c in want):
        labels.add('nontrivial')
    return labels


PARTS = [
    Part('series', check, strategy=lambda tier: cases(),
         budget={'quick': 200, 'thorough': 3000},
         describe='get_series_time_offsets under permutation / axis shift'),
    Part('components', check_components,
         strategy=lambda tier: component_cases(),
         budget={'quick': 250, 'thorough': 5000},
         describe='get_connected_components against union-find'),
]


# ------------------------------------------------------------- table level

from vfw import gen_truth, model_master  # noqa: E402
from vfw.core import guarded  # noqa: E402
from vfw.pipeline import Workflow  # noqa: E402


@st.composite
def table_cases(draw, tier):
    record = draw(gen_truth.far_group_records(noise=draw(st.booleans())))
    record['grid'] = draw(st.sampled_from(['1.0', '0.5', '2.0']))
    return record


def check_tables(case):
    h = float(case['grid'])
    labels = set()
    with Workflow(case) as wf:
        guarded(wf.load)
        guarded(wf.classify)
        guarded(wf.zeta_grid, case['grid'])
        connection = wf.connect()
        try:
            rises, _ = model_master.rise_series(connection)
            recs = model_master.recession_series(connection)
            plans = {}
            for which, series in (('rise', rises), ('recession', recs)):
                table, _ = model_master.crossing_table(series, h)
                members, levels, ok = model_master.main_body(table)
                comps = gen_series.components(table)
                by_series = sorted((len(c[0]) for c in comps), reverse=True)
                strictly = ok and (len(by_series) == 1
                                   or by_series[0] > by_series[1])
                plans[which] = (members, levels, strictly, len(comps),
                                set(series))
        finally:
            connection.close()
        done = []
        for which, run in (('rise', wf.rise), ('recession', wf.recession)):
            if plans[which][2]:
                guarded(run)
                done.append(which)
        if not done:
            raise Reject('both main bodies ambiguous')
        connection = wf.connect()
        try:
            for which in done:
                members, levels, _, ncomp, everyone = plans[which]
                table_name = ('rising_interval' if which == 'rise'
                              else 'recession_interval')
                got = {r for (r,) in connection.execute(
                    'SELECT start_epoch FROM {}'.format(table_name))}
                if got - members:
                    raise Violation(
                        'unconnected-interval-placed:' + which,
                        'intervals {} share no level with the main '
                        'body'.format(sorted(got - members)[:4]))
                if members - got:
                    raise Violation(
                        'main-body-interval-left-out:' + which,
                        'missing {}'.format(sorted(members - got)[:4]))
                if ncomp >= 2 and len(everyone - members) >= 1:
                    labels.add(which + '-has-outsiders')
        finally:
            connection.close()
    if labels:
        labels.add('nontrivial')
    return labels


PARTS.append(
    Part('tables', check_tables, strategy=lambda tier: table_cases(tier),
         budget={'quick': 15, 'thorough': 150},
         describe='far-away group left out, main body complete (CLI)'))


# ------------------------------------------------- internal reference, long fits

import copy  # noqa: E402

from vfw import tree  # noqa: E402
from vfw.props import C05 as _c05  # noqa: E402


def check_reference_big(case):
    """The clause 'independent of the internal reference' on fits of the
    size of a long record on a fine grid (C05's big tables: 16,000-65,000
    equations; the sample data reach 3526): the same crossing table under
    two numberings of its intervals -- another interval becomes the internal
    zero, the equations are assembled in another order -- must give the same
    relative offsets and the same master curve."""
    table = _c05.expand_big(case['big'])
    fo = tree.mod('fit_offsets').find_offsets
    ids = sorted({s for row in table.values() for s in row})
    relabel = {s: case['relabel'][s] + 100 for s in ids}
    mapping = {k: [(s, c) for s, c in sorted(row.items())]
               for k, row in table.items()}
    mapping2 = {k: [(relabel[s], c) for s, c in sorted(
        row.items(), key=lambda sc: relabel[sc[0]])]
        for k, row in table.items()}
    ids1, offsets1 = guarded(fo, copy.deepcopy(mapping))
    ids2, offsets2 = guarded(fo, copy.deepcopy(mapping2))
    back = {v: k for k, v in relabel.items()}
    off1 = {int(s): float(o) for s, o in zip(ids1, offsets1)}
    off2 = {back[int(s)]: float(o) for s, o in zip(ids2, offsets2)}
    if set(off1) != set(off2):
        raise Violation('fitted-set-depends-on-numbering', '')
    scale = max([abs(c) for row in table.values() for c in row.values()]
                + [1.0])
    diffs = [off2[s] - off1[s] for s in sorted(off1)]
    if max(diffs) - min(diffs) > 1e-7 * scale:
        raise Violation('offsets-depend-on-reference-series',
                        'spread of differences {!r}'.format(
                            max(diffs) - min(diffs)))
    multi = {k: [(s, c) for s, c in row.items()]
             for k, row in table.items() if len(row) >= 2}
    c1 = relative_curve(multi, off1)
    c2 = relative_curve(multi, off2)
    worst = max(abs(c1[k] - c2[k]) for k in c1)
    if worst > 1e-7 * scale:
        raise Violation('master-curve-depends-on-reference-series',
                        repr(worst))
    equations = sum(len(row) for row in multi.values())
    return {'nontrivial', 'equations>16384' if equations > 16384
            else 'equations<=16384'}


PARTS.append(
    Part('reference_big', check_reference_big,
         strategy=lambda tier: _c05.big_mapping_cases(),
         budget={'quick': 3, 'thorough': 12},
         describe='find_offsets under renumbering of the intervals, '
                  '16,000-65,000 equations in one fit'))
