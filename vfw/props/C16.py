"""C16 -- PEATCLSM specific yield and transmissivity follow the published
formulation (independent vectorised port of the shipped R script)."""

import copy

import numpy as np
import scipy.stats
from hypothesis import strategies as st

from vfw import tree, gen_params
from vfw.core import Part, Violation, guarded

LEVEL = 'exploration'
RULE = (
    'Specific yield: (sd, theta_s, b, psi_s) within the calibration bounds of '
    'the generated PEST control file (sd in [0.0005,2] - the bound is 0, where '
    'the normal distribution degenerates -, theta_s in [0.01,1], b '
    'in [0.01,20], psi_s in [-1,-0.01]) plus the published set. Oracle: an '
    'independent vectorised port of the shipped R script: equality (rel '
    '1e-10) with the 201-layer discretisation at the 201 tabulated levels; '
    'for the published set additionally numpy.allclose with the R-faithful '
    '200-layer variant; linear between tabulated levels (three interior '
    'points per sampled cell), constant beyond both ends. Transmissivity: '
    'Ksmacz0 in 10^U(-4,5), alpha in (1,20], zeta_max in [-50,50] cm; closed '
    'formula (rel 1e-12) at and below zeta_max, ValueError strictly above, '
    'scalar and array arguments. Non-trivial: parameter set other than the '
    'published one with sd > 0.5 or b < 1 (specific yield), or a level '
    'within 1 mm of zeta_max / a refusal case (transmissivity); distinct = '
    'SHA-1 of the canonical case.'
)
ASSUMPTIONS = ['scipy.stats.norm.cdf', 'numpy float64 power function']

ZL = np.linspace(-1, 1, 201)
ZU = np.linspace(-0.99, 1.01, 201)
ZM = 0.5 * (ZL + ZU)


def reference_sy(sd, theta_s, b, psi_s, layers=201):
    """Vectorised port of get_Sy_soil + surface term of the R script.

    layers=201 is the discretisation of the Python code under test,
    layers=200 the one of the R script (its inner loop stops at 200).
    """
    Fs = scipy.stats.norm.cdf(ZM, loc=0, scale=sd)[:layers]
    zm = ZM[:layers]
    dz = (ZU - ZL)[:layers]

    def theta_profile(zlu):
        # rows: water level i, columns: layer j
        num = (zlu[:, None] - zm[None, :]) * 100
        den = psi_s * 100
        saturated = num >= den
        ratio = np.where(saturated, 1.0, num / den)
        theta = np.where(saturated, theta_s, theta_s * ratio ** (-1.0 / b))
        return (1 - Fs)[None, :] * theta

    A = ((theta_profile(ZU) - theta_profile(ZL)) * dz[None, :]).sum(axis=1)
    soil = A / (ZU - ZL)
    surface = scipy.stats.norm.cdf(ZM, loc=0, scale=sd)
    return soil + surface


@st.composite
def sy_cases(draw):
    params = draw(gen_params.peatclsm_sy())
    cells = draw(st.lists(st.integers(0, 199), min_size=3, max_size=6,
                          unique=True))
    beyond = [draw(st.floats(0.001, 5000.0)), draw(st.floats(0.001, 5000.0))]
    # a second function in the same process that differs from the first in
    # ONE parameter (a calibration run varies one parameter at a time)
    vary = draw(st.sampled_from(['sd', 'theta_s', 'b', 'psi_s']))
    factor = draw(st.sampled_from([0.5, 0.9, 1.1, 2.0]))
    return {'params': params, 'cells': cells, 'beyond': beyond,
            'second': [vary, factor]}


def check_sy(case):
    sy_mod = tree.mod('specific_yield')
    params = case['params']
    f = guarded(sy_mod.create_specific_yield_function, copy.deepcopy(params))
    p = {k: params[k] for k in ('sd', 'theta_s', 'b', 'psi_s')}
    want = reference_sy(**p)
    knots_mm = ZM * 1000
    got = np.asarray(guarded(f, knots_mm), dtype=float)
    scale = np.maximum(np.abs(want), 1e-3)
    bad = np.nonzero(~(np.abs(got - want) <= 1e-10 * scale))[0]
    if len(bad):
        i = int(bad[0])
        raise Violation(
            'sy-not-discretised-profile',
            'level {} mm: got {!r} expected {!r}'.format(
                knots_mm[i], got[i], want[i]))
    if case.get('second'):
        vary, factor = case['second']
        p2 = dict(p)
        p2[vary] = p[vary] * factor
        if vary == 'theta_s':
            p2[vary] = min(p2[vary], 1.0)
        params2 = dict(copy.deepcopy(params), **p2)
        f2 = guarded(sy_mod.create_specific_yield_function, params2)
        want2 = reference_sy(**p2)
        got2 = np.asarray(guarded(f2, knots_mm), dtype=float)
        scale2 = np.maximum(np.abs(want2), 1e-3)
        bad = np.nonzero(~(np.abs(got2 - want2) <= 1e-10 * scale2))[0]
        if len(bad):
            i = int(bad[0])
            raise Violation(
                'sy-not-discretised-profile:second-function',
                'after a function with {}={!r}, one with {!r}: level {} mm: '
                'got {!r} expected {!r}'.format(
                    vary, p[vary], p2[vary], knots_mm[i], got2[i], want2[i]))
        again = np.asarray(guarded(f, knots_mm), dtype=float)
        if not (again == got).all():
            raise Violation('sy-first-function-changed-by-second', vary)
    published = all(
        params[k] == gen_params.PUBLISHED_PEATCLSM_SY[k] for k in p)
    if published:
        r_faithful = reference_sy(layers=200, **p)
        if not np.allclose(got, r_faithful):
            raise Violation('sy-not-R-reference', 'published parameter set')
    # linear in between
    for cell in case['cells']:
        za, zb = knots_mm[cell], knots_mm[cell + 1]
        for frac in (0.25, 0.5, 0.8):
            z = za + frac * (zb - za)
            lin = want[cell] + (want[cell + 1] - want[cell]) * (
                (z - za) / (zb - za))
            g = float(guarded(f, z))
            if abs(g - lin) > 1e-9 * max(abs(lin), 1e-3):
                raise Violation(
                    'sy-not-linear-between-levels',
                    'z={!r}: got {!r} expected {!r}'.format(z, g, lin))
    lo, hi = knots_mm[0], knots_mm[-1]
    for d in case['beyond']:
        if float(guarded(f, lo - d)) != float(guarded(f, lo)):
            raise Violation('sy-not-constant-below', repr(lo - d))
        if float(guarded(f, hi + d)) != float(guarded(f, hi)):
            raise Violation('sy-not-constant-above', repr(hi + d))
    labels = set()
    if published:
        labels.add('published-set')
    elif params['sd'] > 0.5 or params['b'] < 1:
        labels.add('nontrivial')
    return labels


@st.composite
def t_cases(draw):
    params = draw(gen_params.peatclsm_T())
    zmax_mm = params['zeta_max_cm'] * 10
    below = [zmax_mm - draw(st.floats(0.0, 3000.0)) for _ in range(4)]
    below.append(zmax_mm - draw(st.floats(0.0, 1.0)))
    above = zmax_mm + draw(st.floats(1e-6, 500.0))
    return {'params': params, 'below': below, 'above': above}


def formula(K, alpha, zmax, v):
    with np.errstate(all='ignore'):
        return float(
            (np.float64(K) * (np.float64(zmax) - np.float64(v) / 10)
             ** (1 - np.float64(alpha))) / (100 * (np.float64(alpha) - 1)))


def close(got, want, rel=1e-12):
    if np.isinf(want):
        return got == want
    return abs(got - want) <= rel * abs(want)


def check_t(case):
    t_mod = tree.mod('transmissivity')
    params = case['params']
    T = guarded(t_mod.create_transmissivity_function, copy.deepcopy(params))
    K, alpha, zmax = params['Ksmacz0'], params['alpha'], params['zeta_max_cm']
    labels = set()
    levels = [v for v in case['below'] if v / 10 < zmax]
    # NB the level exactly at zeta_max gives 0**(1-alpha) = inf in the
    # formula itself; the statement covers levels the formula defines.
    for v in levels:
        want = formula(K, alpha, zmax, v)
        got = float(guarded(T, v))
        if not close(got, want):
            raise Violation('peatclsm-T-formula',
                            'T({!r})={!r} expected {!r}'.format(v, got, want))
    if levels:
        arr = np.asarray(guarded(T, np.array(levels)), dtype=float)
        for v, a in zip(levels, arr):
            if not close(a, formula(K, alpha, zmax, v)):
                raise Violation('peatclsm-T-formula-array', repr(v))
    above = case['above']
    if above / 10 > zmax:
        for arg in (above, np.array([levels[0] if levels else above, above])):
            try:
                result = T(arg)
            except ValueError:
                labels.add('refused-above')
            except Exception as exc:  # pylint: disable=broad-except
                raise Violation('peatclsm-T-above-wrong-exception',
                                repr(exc)) from exc
            else:
                raise Violation(
                    'peatclsm-T-above-not-refused',
                    'T({!r}) returned {!r}, zeta_max {} cm'.format(
                        arg, result, zmax))
    if 'refused-above' in labels or any(
            zmax * 10 - v < 1.0 for v in levels):
        labels.add('nontrivial')
    return labels


PARTS = [
    Part('peatclsm_sy', check_sy, strategy=lambda tier: sy_cases(),
         budget={'quick': 15, 'thorough': 400},
         describe='PeatclsmSpecificYield against the vectorised R port'),
    Part('peatclsm_T', check_t, strategy=lambda tier: t_cases(),
         budget={'quick': 500, 'thorough': 20000},
         describe='PeatclsmTransmissivity against the closed formula'),
]
