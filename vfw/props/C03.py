"""C03 -- storms and rises are exactly the maximal above-threshold runs; the
rain depth of a storm is the sum over exactly its steps."""

from fractions import Fraction as F

from hypothesis import strategies as st

from vfw import gen_records, model_classify
from vfw import classify_common as cc
from vfw.core import Part, Violation
from vfw.props.C02 import contention_records, chain_records

LEVEL = 'exploration'
RULE = (
    'Lattice records from G-free / G-scenario / contention generators '
    '(thresholds frequently equal to a data value; run lengths from 1; runs '
    'touching either end of a gap-free stretch; gaps) through load+classify. '
    'Oracle (reference model on the loaded tables, Fractions): every storm '
    'row equals one maximal heavy run of its stretch (same start, same '
    'half-open end); every rise row equals one maximal jump run (closed end '
    'on the last sample); none straddles a gap; storm_total_rain_depth '
    'equals the Fraction sum of intensity*step/3600 over exactly the steps '
    'in [start, thru) (rel 1e-12). The jump threshold times the step is '
    'read both as the exact product and as the rounded double product; a '
    'table is accepted if it matches either reading. Non-trivial: a rain '
    'value equals s or an increment equals j*step, or a recorded run has '
    'length 1, or touches an end of its stretch; distinct = SHA-1 of case.'
)
ASSUMPTIONS = ['load is correct (C10)', 'classification completes (C01)']


def threshold_readings(step, j):
    exact = F(j) * F(step, 3600)
    rounded = model_classify.float_threshold(step, j)
    return [exact] if exact == rounded else [exact, rounded]


def classify_and_model(case):
    s, j = case['s'], case['j']
    connection = cc.load_or_reject(case)
    try:
        error = cc.classify_memory(connection, s, j)
        if error is not None:
            cc.raise_classify_error(error, connection)
        step, labels, stretches = model_classify.read_loaded(connection)
        t = cc.tables(connection)
        depth = dict(connection.execute(
            'SELECT storm_start_epoch, total_depth_mm '
            'FROM storm_total_rain_depth').fetchall())
    finally:
        connection.close()
    readings = []
    seen = []
    for thr in threshold_readings(step, j):
        for float_inc in (False, True):
            models = {
                label: model_classify.classify_stretch(
                    stretches[label], step, s, j, jump_threshold=thr,
                    float_increments=float_inc)
                for label in labels if stretches.get(label)}
            key = [(m['storms'], m['rises'], m['flags'], m['interstorms'])
                   for m in models.values()]
            if key not in seen:
                seen.append(key)
                readings.append(models)
    return step, labels, stretches, t, depth, readings


def verify_runs(t, depth, models, step):
    """Raise Violation unless the storm / rise rows are maximal runs."""
    storm_runs = {}
    rise_runs = {}
    for label, m in models.items():
        for (a, b), row in zip(m['storm_runs'], m['storms']):
            storm_runs[row[0]] = (row, b - a + 1, a == 0,
                                  b == len(m['epoch']) - 1, m)
        for (p, q), row in zip(m['rise_runs'], m['rises']):
            rise_runs[row[0]] = (row, q - p + 1, p == 0,
                                 q == len(m['epoch']) - 2)
    notes = set()
    for start, thru in t['storm']:
        if start not in storm_runs:
            raise Violation('storm-not-maximal',
                            'storm [{}, {}) starts inside or outside a heavy '
                            'run'.format(start, thru))
        row, length, at_start, at_end, m = storm_runs[start]
        if row[1] != thru:
            raise Violation('storm-not-maximal',
                            'storm [{}, {}) but the run ends at {}'.format(
                                start, thru, row[1]))
        if length == 1:
            notes.add('run-of-length-1')
        if at_start or at_end:
            notes.add('run-touches-stretch-end')
        want = m['storm_depth'][start]
        got = depth.get(start)
        if got is None or abs(F(got) - want) > F(1e-12) * max(want, 1):
            raise Violation(
                'storm-depth-not-sum-over-its-steps',
                'storm at {}: depth {!r} expected {!r}'.format(
                    start, got, float(want)))
    for start, kind, thru in t['zeta_interval']:
        if kind != 'storm':
            continue
        if start not in rise_runs:
            raise Violation('rise-not-maximal',
                            'rise [{}, {}] does not start a jump run'.format(
                                start, thru))
        row, length, at_start, at_end = rise_runs[start]
        if row[1] != thru:
            raise Violation('rise-not-maximal',
                            'rise [{}, {}] but the run ends at {}'.format(
                                start, thru, row[1]))
        if length == 1:
            notes.add('run-of-length-1')
        if at_start or at_end:
            notes.add('run-touches-stretch-end')
    if set(depth) != {s for s, _ in t['storm']}:
        raise Violation('depth-view-rows-differ-from-storms', '')
    return notes


def check(case):
    step, labels, stretches, t, depth, readings = classify_and_model(case)
    failure = None
    for models in readings:
        try:
            notes = verify_runs(t, depth, models, step)
            failure = None
            break
        except Violation as vio:
            failure = failure or vio
    if failure is not None:
        raise failure
    out = cc.record_labels(case, labels, stretches, readings[0])
    out |= notes
    if len(readings) > 1:
        out.add('threshold-product-inexact')
    exact = any(
        model_classify.exact_threshold_cases(
            stretches[l], step, case['s'], case['j'])
        for l in labels if stretches.get(l))
    if exact:
        out.add('exact-threshold-value')
    recorded = bool(t['storm'])
    if recorded:
        out.add('has-storms')
    if recorded and (exact or notes):
        out.add('nontrivial')
    return out


PARTS = [
    Part('records', check,
         strategy=lambda tier: st.one_of(
             gen_records.records(max_steps=30 if tier == 'quick' else 60),
             contention_records(), chain_records(),
             gen_records.float_records()),
         budget={'quick': 375, 'thorough': 4000},
         describe='storm / rise rows against maximal runs of the model'),
]
