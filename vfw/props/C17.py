"""C17 -- the simulated rise curve is the integral of specific yield."""

import copy

import numpy as np
from hypothesis import strategies as st

from vfw import tree, gen_params
from vfw.core import Part, Violation, guarded
from vfw.props.C14 import reference_integral

LEVEL = 'exploration'
RULE = (
    'Function level: specific-yield parameter sets of both kinds (spline: '
    '4-10 knots; PEATCLSM within calibration bounds) x increasing grids of '
    '2-40 levels placed inside, straddling or beyond the knot range x a '
    'requested mean; refinement pairs (grid, grid plus extra levels). Oracle: '
    'W[i]-W[i-1] and W[last]-W[0] equal an independent quadrature of the '
    'specific-yield callable with all knots as break points (rel 1e-9 of the '
    'integral of |Sy|); differences at shared levels equal under refinement; '
    'non-decreasing when the callable is >= 0 on a dense sample of the '
    'range; mean(W) equals the requested mean. CLI level (part cli): planted '
    'datasets after `rise` x parameter files of both kinds, with and without '
    '--observations (see vfw/props/C17.py check_cli). Non-trivial: the grid '
    'straddles an end of the knot range (function level) or the curve has >= '
    '5 levels (CLI level); distinct = SHA-1 of the canonical case.'
)
ASSUMPTIONS = ['scipy.integrate.quad with break points (reference side)']


@st.composite
def grids(draw, lo, hi, max_n=40):
    where = draw(st.sampled_from(
        ['inside', 'straddle-low', 'straddle-high', 'straddle-both',
         'beyond-low', 'beyond-high']))
    span = hi - lo
    if where == 'inside':
        a, b = lo, hi
    elif where == 'straddle-low':
        a, b = lo - draw(st.floats(1.0, 300.0)), lo + 0.6 * span
    elif where == 'straddle-high':
        a, b = lo + 0.4 * span, hi + draw(st.floats(1.0, 300.0))
    elif where == 'straddle-both':
        a, b = lo - draw(st.floats(1.0, 200.0)), hi + draw(
            st.floats(1.0, 200.0))
    elif where == 'beyond-low':
        b = lo - draw(st.floats(0.0, 50.0))
        a = b - draw(st.floats(5.0, 300.0))
    else:
        a = hi + draw(st.floats(0.0, 50.0))
        b = a + draw(st.floats(5.0, 300.0))
    n = draw(st.integers(2, max_n))
    kind = draw(st.sampled_from(['uniform', 'random']))
    if kind == 'uniform':
        step = draw(st.sampled_from([1.0, 0.5, 2.5, 5.0, 10.0]))
        k0 = int(a // step)
        levels = [(k0 + i) * step for i in range(n)]
    else:
        vals = draw(st.lists(st.floats(a, b), min_size=n, max_size=n,
                             unique=True))
        levels = sorted(round(v, 6) for v in vals)
        levels = sorted(set(levels))
        if len(levels) < 2:
            levels = [a, b]
    return where, levels


@st.composite
def cases(draw):
    kind = draw(st.sampled_from(['spline', 'spline', 'spline', 'peatclsm']))
    if kind == 'spline':
        params = draw(gen_params.spline_sy())
        lo, hi = params['zeta_knots_mm'][0], params['zeta_knots_mm'][-1]
        where, levels = draw(grids(lo, hi))
    else:
        params = draw(gen_params.peatclsm_sy())
        where, levels = draw(grids(-995.0, 1005.0, max_n=12))
    extra = draw(st.lists(
        st.floats(levels[0], levels[-1]).map(lambda v: round(v, 6)),
        min_size=1, max_size=5))
    mean = draw(st.one_of(st.just(0.0), st.floats(-500.0, 500.0)))
    return {'params': params, 'levels': levels, 'extra': extra,
            'mean': mean, 'where': where, 'int_grid': draw(st.booleans())}


def _knots(f, params):
    if params['type'] == 'spline':
        return list(params['zeta_knots_mm'])
    return [float(v) for v in f.zeta_knots_mm]


def check(case):
    sy_mod = tree.mod('specific_yield')
    rise_mod = tree.mod('simulate_rise')
    params = case['params']
    f = guarded(sy_mod.create_specific_yield_function, copy.deepcopy(params))
    knots = _knots(f, params)
    levels = np.array(case['levels'], dtype=float)
    if case.get('int_grid') and all(float(v).is_integer()
                                    for v in case['levels']):
        # whole-millimetre grids are naturally written as integer arrays
        levels = np.array([int(v) for v in case['levels']])
    W = np.asarray(guarded(
        rise_mod.compute_rise_curve, f, levels, case['mean']), dtype=float)
    if W.shape != levels.shape:
        raise Violation('rise-curve-shape', repr(W.shape))
    total_abs = 0.0
    refs = []
    abs_refs = []
    for a, b in zip(levels[:-1], levels[1:]):
        ref, ref_abs = reference_integral(f, float(a), float(b), knots)
        refs.append(ref)
        abs_refs.append(ref_abs)
        total_abs += ref_abs
    scale = total_abs + abs(case['mean']) + 1e-6
    tol = 1e-9 * scale + 1e-9
    for i, ref in enumerate(refs):
        if abs((W[i + 1] - W[i]) - ref) > tol:
            raise Violation(
                'rise-difference-not-integral',
                'levels {!r}..{!r}: {!r} vs {!r}'.format(
                    levels[i], levels[i + 1], W[i + 1] - W[i], ref))
    if abs((W[-1] - W[0]) - sum(refs)) > tol * len(refs):
        raise Violation('rise-span-not-integral', '')
    if abs(W.mean() - case['mean']) > 1e-9 * scale:
        raise Violation('rise-mean-not-requested',
                        'mean {!r} requested {!r}'.format(
                            W.mean(), case['mean']))
    dense = np.concatenate([
        np.linspace(a, b, 33) for a, b in zip(levels[:-1], levels[1:])])
    # specific yield is non-negative over the grid: on a dense sample AND by
    # measure (the integral of |f| equals the integral of f on every cell,
    # knots as break points) - a cubic through (.., 1, 0, 0) dips below zero
    # on a 2 mm stretch that a 33-point sample of a 100 mm cell steps over
    nonneg = bool((np.asarray(f(dense), dtype=float) >= 0).all()) and all(
        ra - r <= 1e-12 * scale for r, ra in zip(refs, abs_refs))
    if nonneg and (np.diff(W) < -tol).any():
        raise Violation('rise-curve-decreases', repr(W.tolist()[:10]))
    # refinement
    fine = np.array(sorted(set(case['levels']) | set(
        v for v in case['extra'] if levels[0] <= v <= levels[-1])))
    W2 = np.asarray(guarded(
        rise_mod.compute_rise_curve, f, fine, case['mean']), dtype=float)
    index = {float(v): i for i, v in enumerate(fine)}
    shared = np.array([W2[index[float(v)]] for v in levels])
    d1 = W - W[0]
    d2 = shared - shared[0]
    if (np.abs(d1 - d2) > tol * len(fine)).any():
        raise Violation('rise-not-refinement-invariant',
                        repr((d1 - d2).tolist()[:10]))
    # a second specific-yield object of another parameter set, used right
    # after the first one on a grid that starts exactly where the first
    # ended (two sites simulated in one process)
    other_params = {'type': 'spline',
                    'zeta_knots_mm': [levels[-1] - 40.0, levels[-1] - 10.0,
                                      levels[-1] + 15.0, levels[-1] + 60.0],
                    'sy_knots': [0.9, 0.35, 0.6, 0.2]}
    g = guarded(sy_mod.create_specific_yield_function,
                copy.deepcopy(other_params))
    grid2 = np.array([float(levels[-1]) + d for d in (0.0, 3.0, 7.5, 20.0)])
    V = np.asarray(guarded(rise_mod.compute_rise_curve, g, grid2, 0.0),
                   dtype=float)
    for i in range(len(grid2) - 1):
        ref, ref_abs = reference_integral(
            g, float(grid2[i]), float(grid2[i + 1]),
            other_params['zeta_knots_mm'])
        if abs((V[i + 1] - V[i]) - ref) > 1e-9 * (ref_abs + 1.0):
            raise Violation(
                'rise-difference-not-integral:second-object',
                'second function, levels {!r}..{!r}: {!r} vs {!r}'.format(
                    grid2[i], grid2[i + 1], V[i + 1] - V[i], ref))
    labels = {case['where'], params['type']}
    if case['where'].startswith('straddle'):
        labels.add('nontrivial')
    return labels


PARTS = [
    Part('function', check, strategy=lambda tier: cases(),
         budget={'quick': 200, 'thorough': 3000},
         describe='simulate_rise.compute_rise_curve'),
]


# ---------------------------------------------------------------- CLI level

import yaml  # noqa: E402

from vfw import gen_truth, model_master  # noqa: E402
from vfw.core import Reject, load_output_yaml, numbers  # noqa: E402
from vfw.pipeline import Workflow  # noqa: E402
from vfw.props.C06 import read_curve  # noqa: E402


@st.composite
def cli_cases(draw, tier):
    record = draw(gen_truth.truth_records(noise=draw(st.booleans()),
                                          min_storms=4, max_storms=8))
    record['grid'] = draw(st.sampled_from(['1.0', '0.5', '2.0', '0.25']))
    kind = draw(st.sampled_from(['spline', 'spline', 'peatclsm']))
    levels = [v for _, v in record['wl']]
    lo, hi = min(levels), max(levels)
    if kind == 'spline':
        sy = draw(gen_params.spline_sy(min_gap=2.0))
        # move the knots over (or partly beside) the observed range
        z = sy['zeta_knots_mm']
        where = draw(st.sampled_from(['cover', 'below', 'above', 'as-is']))
        if where != 'as-is':
            target = {'cover': lo - 5.0, 'below': lo - (z[-1] - z[0]) * 0.7,
                      'above': hi - (z[-1] - z[0]) * 0.3}[where]
            shift = target - z[0]
            sy['zeta_knots_mm'] = [round(v + shift, 4) for v in z]
        T = draw(gen_params.spline_T(min_gap=5.0))
    else:
        sy = draw(gen_params.peatclsm_sy())
        T = draw(gen_params.peatclsm_T())
    record['parameters'] = {'specific_yield': sy, 'transmissivity': T}
    return record


def check_cli(case):
    h = float(case['grid'])
    params = case['parameters']
    with Workflow(case) as wf:
        guarded(wf.load)
        guarded(wf.classify)
        guarded(wf.zeta_grid, case['grid'])
        connection = wf.connect()
        try:
            rises, _ = model_master.rise_series(connection)
            table, _ = model_master.crossing_table(rises, h)
            ok = model_master.main_body(table)[2]
        finally:
            connection.close()
        if not ok:
            raise Reject('rise main body ambiguous')
        guarded(wf.rise)
        connection = wf.connect()
        try:
            _, per_level = read_curve(connection, 'rise')
        finally:
            connection.close()
        ppath = wf.path('parameters.yml')
        with open(ppath, 'w') as f:
            yaml.safe_dump(params, f)
        table_text = guarded(wf.simulate, 'rise', ppath, False)
        vector_text = guarded(wf.simulate, 'rise', ppath, True)
    measured = {k: sum(r.values()) / len(r) for k, r in per_level.items()}
    ks = sorted(measured)
    doc = load_output_yaml(table_text, 'rise-table')
    if not (isinstance(doc, list) and doc and isinstance(doc[0], list)
            and len(doc[0]) == 3 and all(isinstance(x, str) for x in doc[0])):
        raise Violation('rise-table-header-missing', repr(doc)[:200])
    header = [x.lower() for x in doc[0]]
    if not ('mm' in header[0] and 'measured' in header[1]
            and 'simulated' in header[2]):
        raise Violation('rise-table-header-wrong', repr(doc[0]))
    rows = doc[1:]
    for row in rows:
        if not (isinstance(row, list) and len(row) == 3):
            raise Violation('rise-table-row-shape', repr(row)[:120])
        numbers(row, 'rise-table-row')
    if len(rows) != len(ks):
        raise Violation('rise-table-row-count',
                        '{} rows, {} levels'.format(len(rows), len(ks)))
    scale = max(abs(v) for v in measured.values()) + 1.0
    for row, k in zip(rows, ks):
        if abs(row[0] - k * h) > 1e-9 * max(abs(k * h), 1.0):
            raise Violation(
                'rise-table-level-column',
                'row level {!r}, expected {!r} mm (ascending)'.format(
                    row[0], k * h))
        if abs(row[1] - measured[k]) > 1e-9 * scale:
            raise Violation('rise-table-measured-column',
                            'level {}: {!r} vs {!r}'.format(
                                k, row[1], measured[k]))
    sim = [row[2] for row in rows]
    meas = [row[1] for row in rows]
    sscale = scale + max(abs(v) for v in sim)
    if abs(sum(sim) / len(sim) - sum(meas) / len(meas)) > 1e-9 * sscale:
        raise Violation('rise-table-mean-not-measured-mean',
                        repr((sum(sim) / len(sim), sum(meas) / len(meas))))
    vector = numbers(load_output_yaml(vector_text, 'rise-vector'),
                     'rise-vector')
    if len(vector) != len(sim) or any(
            a != b and abs(a - b) > 1e-14 * max(abs(a), abs(b))
            for a, b in zip(vector, sim)):
        # (the vector may carry fewer digits than the table so that every
        # value fits the field read by the PEST instruction file)
        raise Violation('rise-observations-differ-from-table',
                        repr((vector[:3], sim[:3])))
    # simulated differences = integral of the specific yield
    sy_mod = tree.mod('specific_yield')
    f = guarded(sy_mod.create_specific_yield_function,
                copy.deepcopy(params['specific_yield']))
    knots = _knots(f, params['specific_yield'])
    for (ka, a), (kb, b) in zip(zip(ks[:-1], sim[:-1]), zip(ks[1:], sim[1:])):
        ref, ref_abs = reference_integral(f, ka * h, kb * h, knots)
        if abs((b - a) - ref) > 1e-9 * (ref_abs + sscale):
            raise Violation('rise-table-simulated-not-integral',
                            'levels {}..{}: {!r} vs {!r}'.format(
                                ka, kb, b - a, ref))
    labels = {params['specific_yield']['type']}
    if len(ks) >= 5:
        labels.add('nontrivial')
    return labels


PARTS.append(
    Part('cli', check_cli, strategy=lambda tier: cli_cases(tier),
         budget={'quick': 15, 'thorough': 200},
         describe='`spowtd simulate rise` table and --observations vector'))
