"""C17 -- the simulated rise curve is the integral of specific yield."""

import copy

import numpy as np
from hypothesis import strategies as st

from vfw import tree, gen_params
from vfw.core import Part, Violation, guarded
from vfw.props.C14 import reference_integral

LEVEL = 'exploration'
RULE = (
    'Function level: specific-yield parameter sets of both kinds (spline: '
    '4-10 knots; PEATCLSM within calibration bounds) x increasing grids of '
    '2-40 levels placed inside, straddling or beyond the knot range x a '
    'requested mean; refinement pairs (grid, grid plus extra levels). Oracle: '
    'W[i]-W[i-1] and W[last]-W[0] equal an independent quadrature of the '
    'specific-yield callable with all knots as break points (rel 1e-9 of the '
    'integral of |Sy|); differences at shared levels equal under refinement; '
    'non-decreasing when the callable is >= 0 on a dense sample of the '
    'range; mean(W) equals the requested mean. CLI level (part cli): planted '
    'datasets after `rise` x parameter files of both kinds, with and without '
    '--observations (see vfw/props/C17.py check_cli). Non-trivial: the grid '
    'straddles an end of the knot range (function level) or the curve has >= '
    '5 levels (CLI level); distinct = SHA-1 of the canonical case.'
)
ASSUMPTIONS = ['scipy.integrate.quad with break points (reference side)']


@st.composite
def grids(draw, lo, hi, max_n=40):
    where = draw(st.sampled_from(
        ['inside', 'straddle-low', 'straddle-high', 'straddle-both',
         'beyond-low', 'beyond-high']))
    span = hi - lo
    if where == 'inside':
        a, b = lo, hi
    elif where == 'straddle-low':
        a, b = lo - draw(st.floats(1.0, 300.0)), lo + 0.6 * span
    elif where == 'straddle-high':
        a, b = lo + 0.4 * span, hi + draw(st.floats(1.0, 300.0))
    elif where == 'straddle-both':
        a, b = lo - draw(st.floats(1.0, 200.0)), hi + draw(
            st.floats(1.0, 200.0))
    elif where == 'beyond-low':
        b = lo - draw(st.floats(0.0, 50.0))
        a = b - draw(st.floats(5.0, 300.0))
    else:
        a = hi + draw(st.floats(0.0, 50.0))
        b = a + draw(st.floats(5.0, 300.0))
    n = draw(st.integers(2, max_n))
    kind = draw(st.sampled_from(['uniform', 'random']))
    if kind == 'uniform':
        step = draw(st.sampled_from([1.0, 0.5, 2.5, 5.0, 10.0]))
        k0 = int(a // step)
        levels = [(k0 + i) * step for i in range(n)]
    else:
        vals = draw(st.lists(st.floats(a, b), min_size=n, max_size=n,
                             unique=True))
        levels = sorted(round(v, 6) for v in vals)
        levels = sorted(set(levels))
        if len(levels) < 2:
            levels = [a, b]
    return where, levels


@st.composite
def cases(draw):
    kind = draw(st.sampled_from(['spline', 'spline', 'spline', 'peatclsm']))
    if kind == 'spline':
        params = draw(gen_params.spline_sy())
        lo, hi = params['zeta_knots_mm'][0], params['zeta_knots_mm'][-1]
        where, levels = draw(grids(lo, hi))
    else:
        params = draw(gen_params.peatclsm_sy())
        where, levels = draw(grids(-995.0, 1005.0, max_n=12))
    extra = draw(st.lists(
        st.floats(levels[0], levels[-1]).map(lambda v: round(v, 6)),
        min_size=1, max_size=5))
    mean = draw(st.one_of(st.just(0.0), st.floats(-500.0, 500.0)))
    return {'params': params, 'levels': levels, 'extra': extra,
            'mean': mean, 'where': where}


def _knots(f, params):
    if params['type'] == 'spline':
        return list(params['zeta_knots_mm'])
    return [float(v) for v in f.zeta_knots_mm]


def check(case):
    sy_mod = tree.mod('specific_yield')
    rise_mod = tree.mod('simulate_rise')
    params = case['params']
    f = guarded(sy_mod.create_specific_yield_function, copy.deepcopy(params))
    knots = _knots(f, params)
    levels = np.array(case['levels'], dtype=float)
    W = np.asarray(guarded(
        rise_mod.compute_rise_curve, f, levels, case['mean']), dtype=float)
    if W.shape != levels.shape:
        raise Violation('rise-curve-shape', repr(W.shape))
    total_abs = 0.0
    refs = []
    for a, b in zip(levels[:-1], levels[1:]):
        ref, ref_abs = reference_integral(f, float(a), float(b), knots)
        refs.append(ref)
        total_abs += ref_abs
    scale = total_abs + abs(case['mean']) + 1e-6
    tol = 1e-9 * scale + 1e-9
    for i, ref in enumerate(refs):
        if abs((W[i + 1] - W[i]) - ref) > tol:
            raise Violation(
                'rise-difference-not-integral',
                'levels {!r}..{!r}: {!r} vs {!r}'.format(
                    levels[i], levels[i + 1], W[i + 1] - W[i], ref))
    if abs((W[-1] - W[0]) - sum(refs)) > tol * len(refs):
        raise Violation('rise-span-not-integral', '')
    if abs(W.mean() - case['mean']) > 1e-9 * scale:
        raise Violation('rise-mean-not-requested',
                        'mean {!r} requested {!r}'.format(
                            W.mean(), case['mean']))
    dense = np.concatenate([
        np.linspace(a, b, 33) for a, b in zip(levels[:-1], levels[1:])])
    nonneg = bool((np.asarray(f(dense), dtype=float) >= 0).all())
    if nonneg and (np.diff(W) < -tol).any():
        raise Violation('rise-curve-decreases', repr(W.tolist()[:10]))
    # refinement
    fine = np.array(sorted(set(case['levels']) | set(
        v for v in case['extra'] if levels[0] <= v <= levels[-1])))
    W2 = np.asarray(guarded(
        rise_mod.compute_rise_curve, f, fine, case['mean']), dtype=float)
    index = {float(v): i for i, v in enumerate(fine)}
    shared = np.array([W2[index[float(v)]] for v in levels])
    d1 = W - W[0]
    d2 = shared - shared[0]
    if (np.abs(d1 - d2) > tol * len(fine)).any():
        raise Violation('rise-not-refinement-invariant',
                        repr((d1 - d2).tolist()[:10]))
    labels = {case['where'], params['type']}
    if case['where'].startswith('straddle'):
        labels.add('nontrivial')
    return labels


PARTS = [
    Part('function', check, strategy=lambda tier: cases(),
         budget={'quick': 200, 'thorough': 3000},
         describe='simulate_rise.compute_rise_curve'),
]
