"""C04 -- interstorm intervals are clean, maximal, rain-free recessions and
the per-step flags agree with the same definitions."""

import numpy as np
from hypothesis import strategies as st

from vfw import gen_records, tree, model_classify
from vfw import classify_common as cc
from vfw.core import Part, Violation, Reject, guarded
from vfw.props.C03 import classify_and_model

LEVEL = 'exploration'
RULE = (
    'Lattice records (G-free incl. all-dry and all-rain alphabets, '
    'G-scenario with unexplained rises, gaps, steps incl. 1200 and 2400 s '
    'whose length in hours is not a binary fraction, increments exactly at '
    'the threshold) through load+classify. Oracle: grid_time_flags equals '
    'the three model flags for every sample of every stretch (is_jump: '
    'increment ending at the sample strictly above threshold*step; '
    'unexplained-rise automaton starting in the unexplained state, cleared '
    'by a rainy step, set by a dry jump; interstorm = dry and explained); the '
    'set of interstorm rows equals the model set in both directions '
    '(maximal runs of >= 2 samples, exact ends). Both readings of '
    'threshold*step (exact / rounded double) are accepted. A second part '
    'drives get_mystery_jump_mask and get_true_interval_masks directly on '
    'generated boolean vectors; a third runs classify a second time with other '
    'thresholds and requires the tables to describe the classification whose '
    'thresholds are recorded; part long_record: one gap-free record of 65,000-140,000 samples (dry spells across sample 65536). Non-trivial: at least one interstorm '
    'interval and one of: an unexplained rise inside a dry spell, an '
    'exact-threshold increment, a dry spell before the first rain, a gap; '
    'distinct = SHA-1 of the case.'
)
ASSUMPTIONS = ['load is correct (C10)', 'classification completes (C01)']


def verify_flags(t, models):
    want_flags = {}
    want_inter = set()
    for m in models.values():
        want_flags.update(m['flags'])
        want_inter.update(m['interstorms'])
    got_flags = {e: (a, b, c) for e, a, b, c in t['flags']}
    if set(got_flags) != set(want_flags):
        raise Violation(
            'flags-rows-differ',
            'extra {} missing {}'.format(
                sorted(set(got_flags) - set(want_flags))[:5],
                sorted(set(want_flags) - set(got_flags))[:5]))
    names = ('is_jump', 'is_mystery_jump', 'is_interstorm')
    for e in sorted(want_flags):
        if tuple(got_flags[e]) != tuple(want_flags[e]):
            which = [n for n, g, w in zip(names, got_flags[e], want_flags[e])
                     if g != w]
            raise Violation(
                'flags-mismatch:' + which[0],
                'epoch {}: got {} expected {}'.format(
                    e, got_flags[e], want_flags[e]))
    got_inter = {(a, b) for a, kind, b in t['zeta_interval']
                 if kind == 'interstorm'}
    if got_inter != want_inter:
        missing = sorted(want_inter - got_inter)
        extra = sorted(got_inter - want_inter)
        sig = 'interstorm-missing' if missing and not extra else (
            'interstorm-extra' if extra and not missing
            else 'interstorm-ends-differ')
        raise Violation(sig, 'missing {} extra {}'.format(
            missing[:4], extra[:4]))
    return want_inter


@st.composite
def long_record_cases(draw):
    """Years of ten-minute data without a gap: 65,000 - 140,000 samples
    (the sample data have about 20,000), described by a few numbers."""
    return {'long': {
        'n': draw(st.sampled_from([65537, 65600, 70000, 66000, 131100])),
        'period': draw(st.sampled_from([978, 1000, 4100, 5002])),
        'dt': draw(st.sampled_from([600, 1800, 60])),
        'thr_units': draw(st.sampled_from([2, 4])),
        'phase': draw(st.integers(3, 900))}}


def expand_long(spec):
    n, period, dt = spec['n'], spec['period'], spec['dt']
    thr_units = spec['thr_units']
    s = 4.0
    j = (thr_units / 8.0) * 3600.0 / dt
    rain, z = [], [8 * 400]
    rise = (period - 2) // 2
    for k in range(n):
        pos = (k + spec['phase']) % period
        # (it still rains in the step after the rise ends, so that no
        # jump ends on a dry step and the dry spells are interstorms)
        rain.append(12.5 if pos in (0, 1, 2) else 0.0)
        z.append(z[-1] + rise if pos in (0, 1) else z[-1] - 1)
    case = gen_records.assemble(
        dt, gen_records.T0_BASE, 'UTC', rain, z, 0, [], [], set(), [0.125],
        s, j, {'gen': 'long', 'thr_units': thr_units})
    return case


def check_long(case):
    out = check(expand_long(case['long']))
    if 'has-interstorm' not in out:
        raise Reject('long record without interstorm intervals')
    out.add('samples>65536')
    out.add('nontrivial')
    return out


def check(case):
    step, labels, stretches, t, depth, readings = classify_and_model(case)
    failure = None
    for models in readings:
        try:
            inter = verify_flags(t, models)
            failure = None
            break
        except Violation as vio:
            failure = failure or vio
    if failure is not None:
        if step % 225 and failure.signature == 'flags-mismatch:is_jump':
            failure = Violation(
                failure.signature + ':step-not-binary-fraction-of-hour',
                failure.detail)
        raise failure
    out = cc.record_labels(case, labels, stretches, models)
    if step % 225:
        out.add('step-not-binary-fraction-of-hour')
    features = set()
    for label in labels:
        samples = stretches.get(label)
        if not samples:
            continue
        m = models[label]
        flags = [m['flags'][e] for e in m['epoch']]
        rain = [r for _, r, _ in samples]
        if any(f[0] and f[1] for f in flags):
            features.add('unexplained-rise')
        if any(d == m['thr'] for d in m['inc']):
            features.add('exact-threshold-increment')
        first_rain = next((i for i, r in enumerate(rain) if r > 0), None)
        if first_rain is None or first_rain >= 2:
            features.add('dry-before-first-rain')
    if len([l for l in labels if stretches.get(l)]) >= 2:
        features.add('gap')
    out |= features
    if inter:
        out.add('has-interstorm')
        if features:
            out.add('nontrivial')
    return out


# ------------------------------------------------ function-level kernels

def check_masks(case):
    classify = tree.mod('classify')
    jump = np.array(case['jump'], dtype=bool)
    rain = np.array(case['rain'], dtype=bool)
    got = guarded(classify.get_mystery_jump_mask, jump, rain)
    state = True
    want = []
    for jmp, r in zip(case['jump'], case['rain']):
        if r:
            state = False
        elif jmp:
            state = True
        want.append(state)
    if [bool(v) for v in got] != want:
        raise Violation('mystery-mask-differs', repr((list(got), want)))
    masks = guarded(lambda: [
        [bool(v) for v in m]
        for m in classify.get_true_interval_masks(jump)])
    want_runs = model_classify.runs(case['jump'])
    got_runs = []
    for m in masks:
        idx = [i for i, v in enumerate(m) if v]
        if not idx or idx != list(range(idx[0], idx[-1] + 1)):
            raise Violation('interval-mask-not-contiguous', repr(m))
        got_runs.append((idx[0], idx[-1]))
    if got_runs != want_runs:
        raise Violation('interval-masks-not-maximal-runs',
                        repr((got_runs, want_runs)))
    out = set()
    if want_runs and (want_runs[0][0] == 0
                      or want_runs[-1][1] == len(jump) - 1):
        out.add('nontrivial')
    return out


@st.composite
def mask_cases(draw):
    n = draw(st.integers(0, 24))
    return {'jump': draw(st.lists(st.booleans(), min_size=n, max_size=n)),
            'rain': draw(st.lists(st.booleans(), min_size=n, max_size=n))}


# ------------------------------------------------ a second classify attempt

@st.composite
def reclassify_cases(draw, tier):
    record = draw(gen_records.records(max_steps=24))
    units = record.get('thr_units', 4)
    other = draw(st.sampled_from([u for u in (1, 2, 3, 4, 6, 8, 12, 16)
                                  if u != units]))
    record['j2'] = (other / 8.0) * 3600.0 / record['dt']
    record['s2'] = draw(st.sampled_from([record['s'], record['s'] * 2]))
    return record


def check_reclassify(case):
    """`classify` run a second time with other thresholds: whether the
    package refuses it (as it does today) or carries it out, the tables must
    describe ONE classification - the one whose thresholds are recorded."""
    from vfw.props.C03 import threshold_readings
    connection = cc.load_or_reject(case)
    try:
        error = cc.classify_memory(connection, case['s'], case['j'])
        if error is not None:
            cc.raise_classify_error(error, connection)
        second = cc.classify_memory(connection, case['s2'], case['j2'])
        step, labels, stretches = model_classify.read_loaded(connection)
        t = cc.tables(connection)
    finally:
        connection.close()
    in_force = (case['s'], case['j']) if second is not None else (
        case['s2'], case['j2'])
    if t['thresholds'] != [in_force]:
        raise Violation(
            'thresholds-row-does-not-match-outcome',
            'second classify {}: thresholds {}'.format(
                'refused' if second is not None else 'accepted',
                t['thresholds']))
    failure = None
    for thr in threshold_readings(step, in_force[1]):
        models = {
            label: model_classify.classify_stretch(
                stretches[label], step, in_force[0], in_force[1],
                jump_threshold=thr)
            for label in labels if stretches.get(label)}
        try:
            inter = verify_flags(t, models)
            failure = None
            break
        except Violation as vio:
            failure = failure or vio
    if failure is not None:
        raise Violation(failure.signature + ':after-second-classify',
                        failure.detail)
    out = {'second-refused' if second is not None else 'second-accepted'}
    if inter:
        out.add('nontrivial')
    return out


PARTS = [
    Part('reclassify', check_reclassify,
         strategy=lambda tier: reclassify_cases(tier),
         budget={'quick': 100, 'thorough': 1500},
         describe='second classify with other thresholds: refused or '
                  'carried out, never a blend'),
    Part('records', check,
         strategy=lambda tier: st.one_of(
             gen_records.records(max_steps=30 if tier == 'quick' else 60),
             gen_records.records(max_steps=30 if tier == 'quick' else 60),
             gen_records.float_records()),
         budget={'quick': 375, 'thorough': 4000},
         describe='flags and interstorm rows against the model automaton'),
    Part('long_record', check_long,
         strategy=lambda tier: long_record_cases(),
         budget={'quick': 1, 'thorough': 2},
         shards={'quick': 2, 'thorough': 8},
         describe='one gap-free record of 65,000-140,000 samples'),
    Part('masks', check_masks, strategy=lambda tier: mask_cases(),
         budget={'quick': 250, 'thorough': 5000},
         describe='get_mystery_jump_mask / get_true_interval_masks'),
    Part('masks_fuzz', check_masks, fuzz_of='masks', fuzz_runs=60000,
         shards={'quick': 0, 'thorough': 4},
         describe='atheris campaign over the mask kernels '
                  '(thorough tier only)'),
]
