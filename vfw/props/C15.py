"""C15 -- spline transmissivity = minimum + integral of a log-linear
conductivity; continuous, non-decreasing; scalar == array."""

import copy
import math

import numpy as np
from hypothesis import strategies as st

from vfw import tree, gen_params
from vfw.core import Part, Violation, guarded

LEVEL = 'exploration'
RULE = (
    '2-8 strictly increasing knots (spacing 0.5-800 mm), conductivities '
    '10^U(-5,4) km/d, or a tight profile 10^U(-13,-6) with a minimum of '
    '10^U(-12,-6) (some adjacent pairs equal: zero log-slope; integer-typed '
    'values in half of the cases), minimum transmissivity 10^U(-3,2); levels drawn below the lowest knot, on every '
    'knot, just beside knots, inside every segment and exactly on the highest '
    'knot. Oracle: closed form T_min + sum K_i*expm1(s_i*dz)/s_i (K_i*dz '
    'when s_i = 0) compared with numpy.allclose defaults (rtol 1e-5, atol '
    '1e-8, the absolute term scaled down to 1e-6*T_min for minute values); T = T_min at and below the lowest knot; monotone non-decreasing '
    'over the sorted levels (relative slack 1e-9); continuity across knots; '
    'scalar, list, array, reversed-view and permuted-array arguments agree to 1e-12 relative and each is held against the closed form; levels include 0.0, -0.0, round values and values 1-101 ulp inside the lowest and the highest knot. Non-trivial: some level lies '
    'above >= 2 knots and the conductivity contrast along the path is >= '
    '1e3; distinct = SHA-1 of the canonical case.'
)
ASSUMPTIONS = ['math.expm1 / math.log accurate to a few ulp']


def closed_form(params, level):
    z = params['zeta_knots_mm']
    K = params['K_knots_km_d']
    total = params['minimum_transmissivity_m2_d']
    if level <= z[0]:
        return total
    for i in range(len(z) - 1):
        if level <= z[i]:
            break
        top = min(level, z[i + 1])
        s = (math.log(K[i + 1]) - math.log(K[i])) / (z[i + 1] - z[i])
        dz = top - z[i]
        if s == 0:
            total += K[i] * dz
        else:
            total += K[i] * math.expm1(s * dz) / s
    return total


@st.composite
def cases(draw):
    params = draw(gen_params.spline_T())
    z = params['zeta_knots_mm']
    levels = [z[0] - draw(st.floats(0.0, 300.0)), z[0], z[-1]]
    for i in range(len(z) - 1):
        frac = draw(st.floats(0.0, 1.0))
        levels.append(z[i] + frac * (z[i + 1] - z[i]))
    for zi in z[1:-1]:
        levels.extend([zi, zi - 1e-6, zi + 1e-6])
    extra = draw(st.lists(st.floats(z[0] - 10.0, z[-1]), max_size=3))
    levels.extend(extra)
    # a few ulp beside the lowest and the highest knot (quadrature
    # abscissae are rounded: one of them fell below the lowest knot, fix
    # 8975445) and beside one interior knot
    ulps = draw(st.sampled_from([1, 2, 7, 50, 101]))
    v = float(z[0])
    w = float(z[-1])
    for _ in range(ulps):
        v = math.nextafter(v, math.inf)
        w = math.nextafter(w, -math.inf)
    levels.extend([v, w])
    # the peat surface and other round levels (a grid such as
    # linspace(-350, 400, 16) contains 0.0 exactly)
    levels.extend(v for v in (0.0, -1.0, 1.0, -100.0, 10.0, float(int(z[-1])))
                  if z[0] - 400.0 <= v <= z[-1])
    levels = sorted(set(min(max(v, z[0] - 400.0), z[-1]) for v in levels))
    if draw(st.booleans()) and z[0] - 400.0 <= 0.0 <= z[-1]:
        levels.insert(levels.index(0.0), -0.0)
    order = draw(st.permutations(range(len(levels))))
    return {'params': params, 'levels': levels, 'order': list(order)}


def check(case):
    t_mod = tree.mod('transmissivity')
    params = case['params']
    z, K = params['zeta_knots_mm'], params['K_knots_km_d']
    T = guarded(t_mod.create_transmissivity_function, copy.deepcopy(params))
    levels = case['levels']
    tmin = params['minimum_transmissivity_m2_d']
    scalars = [float(guarded(T, float(v))) for v in levels]
    arr = np.asarray(guarded(T, np.array(levels, dtype=float)), dtype=float)
    lst = np.asarray(guarded(T, list(levels)), dtype=float)
    # a reversed view (negative stride), as in np.linspace(a, b, n)[::-1]
    rev = np.asarray(guarded(T, np.array(levels, dtype=float)[::-1]),
                     dtype=float)
    if (arr.shape != (len(levels),) or lst.shape != (len(levels),)
            or rev.shape != (len(levels),)):
        raise Violation('array-shape', repr(arr.shape))
    views = [('scalar', scalars), ('array', arr.tolist()),
             ('list', lst.tolist()), ('reversed view', rev[::-1].tolist())]
    order = case.get('order')
    if order:
        # the same levels in another order
        mixed = np.asarray(guarded(
            T, np.array([levels[i] for i in order], dtype=float)),
            dtype=float)
        if mixed.shape != (len(levels),):
            raise Violation('array-shape', repr(mixed.shape))
        back = [None] * len(levels)
        for position, i in enumerate(order):
            back[i] = float(mixed[position])
        views.append(('permuted array', back))
    # whole-millimetre levels written as integers (np.arange(-400, 201,
    # 100), a list of ints) are the same levels
    whole = sorted({float(math.floor(v)) for v in levels
                    if math.floor(v) >= z[0] - 400.0})
    if whole:
        as_float = [float(guarded(T, v)) for v in whole]
        for name, arg in (
                ('integer array', np.array([int(v) for v in whole])),
                ('list of ints', [int(v) for v in whole])):
            values = np.asarray(guarded(T, arg), dtype=float)
            if values.shape != (len(whole),):
                raise Violation('array-shape', repr(values.shape))
            for level, s, a in zip(whole, as_float, values.tolist()):
                if not abs(s - a) <= 1e-12 * abs(s):
                    raise Violation(
                        'integer-typed-level-differs',
                        '{} at {}: {!r}, scalar call at {!r}: {!r}'.format(
                            name, int(level), a, level, s))
    # "the same values": the array is today a loop over the scalar code;
    # an implementation that integrates in another order may differ in the
    # last places, one that differs by more does not give the same values
    for name, values in views[1:]:
        for level, s, a in zip(levels, scalars, values):
            if not abs(s - a) <= 1e-12 * abs(s):
                raise Violation(
                    'array-scalar-mismatch',
                    '{} at {!r}: {!r}, scalar call {!r}'.format(
                        name, level, a, s))
    contrast = max(K) / min(K)
    worst = None
    for name, values in views:
        for level, got in zip(levels, values):
            want = closed_form(params, level)
            if level <= z[0]:
                if got != tmin:
                    raise Violation('not-minimum-at-or-below-lowest-knot',
                                    'T({!r})={!r} ({}), minimum {!r}'.format(
                                        level, got, name, tmin))
                continue
            # numpy.allclose defaults, except that the absolute term is scaled
            # down for minute transmissivities (tight subsoil, K << 1e-8 km/d)
            if not abs(got - want) <= 1e-5 * abs(want) + min(1e-8, 1e-6 * tmin):
                detail = ('T({!r})={!r} ({}), closed form {!r}, knots {} '
                          'K {}'.format(level, got, name, want, z, K))
                raise Violation('transmissivity-not-integral-of-conductivity',
                                detail)
    for (la, ta), (lb, tb) in zip(
            zip(levels[:-1], scalars[:-1]), zip(levels[1:], scalars[1:])):
        if tb < ta * (1 - 1e-9) - 1e-12:
            raise Violation(
                'transmissivity-decreases',
                'T({!r})={!r} > T({!r})={!r}'.format(la, ta, lb, tb))
    # continuity at interior knots: |T(z+d) - T(z-d)| <= max K nearby * 2d
    for zi, Ki in zip(z[1:-1], K[1:-1]):
        lo = float(guarded(T, zi - 1e-6))
        hi = float(guarded(T, zi + 1e-6))
        mid = float(guarded(T, zi))
        bound = 4e-6 * max(K) + 1e-5 * abs(mid) + 1e-8
        if abs(hi - lo) > bound or abs(mid - lo) > bound:
            raise Violation('transmissivity-discontinuous',
                            'around knot {!r}: {!r} {!r} {!r}'.format(
                                zi, lo, mid, hi))
    labels = set()
    above2 = any(sum(1 for zi in z if v > zi) >= 2 for v in levels)
    if above2 and contrast >= 1e3:
        labels.add('nontrivial')
    if contrast >= 1e3:
        labels.add('contrast>=1e3')
    if min(b - a for a, b in zip(z[:-1], z[1:])) < 5.0:
        labels.add('gap<5mm')
    return labels


PARTS = [
    Part('spline_T', check, strategy=lambda tier: cases(),
         budget={'quick': 150, 'thorough': 3000},
         describe='SplineTransmissivity against the closed form'),
]
