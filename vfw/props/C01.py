"""C01 -- classification completes; pairs are one-to-one and overlap."""

import shutil

from hypothesis import strategies as st

from vfw import gen_records
from vfw import classify_common as cc
from vfw.core import Part, Violation

LEVEL = 'exploration'
RULE = (
    'Records from G-free (independent per-step classes from small alphabets: '
    'rain in {0, drizzle, exactly s, heavy}, increment in {fall, flat, small, '
    'exactly j*step, jump}; 2-30 steps; 0-3 gaps incl. one-sample stretches; '
    'water-level record offset against the rain record) and G-scenario '
    '(event sequences: storms with trailing drizzle, lagging / leading '
    'rises, two bursts in one rise, two rises in one burst, bursts without '
    'response, unexplained rises) and a contention generator (long mixed '
    'runs of heavy / drizzle steps and jump / small increments so that storms '
    'overlap several rises and vice versa) x lattice thresholds (often equal to a '
    'data value), plus a float generator (arbitrary finite doubles for values '
    'and thresholds from 1e-6 to 500) and the file triples of C10 (finer / '
    'coarser / unaligned water-level sampling, shuffled rows); ~10% of cases run through the command line on a file, the '
    'rest through load_data / classify_intervals on :memory:. Oracle: no '
    'exception (a dataset without any water level must be refused with the '
    'explicit "No valid data intervals" error and left unchanged); no rise '
    'and no storm repeated in the pairing (counted by the harness); every '
    'pair references existing rows; every pair shares a time step. Part matching_enum: the pairing core (find_stable_matching) on the enumerated strict preference instances up to 3 storms x 3 rises returns a one-to-one subset of the candidate edges. '
    'Non-trivial: contention (a storm overlapping >= 2 rises or vice versa), '
    'or a run touching an end of its stretch, or >= 2 data intervals, or a '
    'stretch of < 2 samples; distinct = SHA-1 of the case.'
)
ASSUMPTIONS = ['load is correct (C10)']


@st.composite
def loadable_triples(draw):
    """The file triples of C10 (water level on a finer / coarser / unaligned
    step, gaps anywhere, shuffled rows) with thresholds: whatever loads must
    classify."""
    from vfw.props.C10 import cases as load_cases
    record = draw(load_cases())
    record['s'] = draw(st.sampled_from([0.25, 1.0, 4.0, 8.0]))
    record['j'] = draw(st.one_of(st.sampled_from([0.5, 5.0, 8.0]),
                                 st.floats(0.01, 40.0)))
    record['gen'] = 'load-triple-' + record.get('mode', '')
    record.pop('cli', None)
    return record


@st.composite
def repeated_block_records(draw):
    """The same block of events twice, separated by a gap in the water-level
    record: every storm and rise of the second data interval sits at the
    same position relative to its interval as its twin in the first (per-run
    state keyed by relative position would collide)."""
    from vfw.props.C02 import chain_records
    base = draw(st.one_of(gen_records.scenario_records(
        max_events=6, min_events=3, allow_gaps=False), chain_records()))
    dt = base['dt']
    rain = [v for _, v in base['rain']]
    levels = [v for _, v in base['wl']]
    gap = draw(st.integers(1, 3))
    n = len(rain)
    shift = n + gap + 1
    rain2 = rain + [0.0] * (gap + 1) + rain
    wl = [[k * dt, v] for k, v in enumerate(levels)] + [
        [(shift + k) * dt, v] for k, v in enumerate(levels)]
    et = [[i, 0.125] for i in range(-1, len(rain2) + 3)]
    record = dict(base)
    record.update({'rain': [[i, v] for i, v in enumerate(rain2)], 'wl': wl,
                   'et': et, 'gen': 'repeated-block'})
    record.pop('fine_removed', None)
    return record


@st.composite
def cases(draw, tier):
    from vfw.props.C02 import contention_records, chain_records
    record = draw(st.one_of(
        gen_records.records(max_steps=30 if tier == 'quick' else 60),
        contention_records(), chain_records(),
        gen_records.float_records(), loadable_triples(),
        repeated_block_records()))
    record['cli'] = draw(st.integers(0, 9)) == 0
    return record


def check(case):
    s, j = case['s'], case['j']
    directory = None
    if case.get('cli'):
        connection, error, directory = cc.classify_cli(case, s, j)
    else:
        connection = cc.load_or_reject(case)
        error = cc.classify_memory(connection, s, j)
    try:
        return verify(case, connection, error)
    finally:
        connection.close()
        if directory:
            shutil.rmtree(directory, ignore_errors=True)


def verify(case, connection, error):
    s, j = case['s'], case['j']
    step, labels, stretches, models = cc.model_of(connection, s, j)
    out = cc.record_labels(case, labels, stretches, models)
    if case.get('cli'):
        out.add('via-cli')
    (n_wl,) = connection.execute('SELECT count(*) FROM water_level').fetchone()
    if not labels:
        # nothing to classify: clean refusal required, file unchanged
        if not (isinstance(error, ValueError)
                and 'No valid data intervals' in str(error)):
            raise Violation('no-data-not-refused-cleanly', repr(error))
        if connection.execute('SELECT count(*) FROM thresholds').fetchone()[0]:
            raise Violation('refusal-left-thresholds-behind', '')
        out.add('clean-refusal')
        return out
    if error is not None:
        cc.raise_classify_error(error)
    t = cc.tables(connection)
    rises = [r for r, _ in t['pairs']]
    storms = [st_ for _, st_ in t['pairs']]
    if len(set(rises)) != len(rises):
        raise Violation('rise-paired-twice', repr(t['pairs']))
    if len(set(storms)) != len(storms):
        raise Violation('storm-paired-twice', repr(t['pairs']))
    storm_rows = dict(t['storm'])
    rise_rows = {a: b for a, kind, b in t['zeta_interval'] if kind == 'storm'}
    for rise_start, storm_start in t['pairs']:
        if storm_start not in storm_rows:
            raise Violation('pair-references-missing-storm', repr(storm_start))
        if rise_start not in rise_rows:
            raise Violation('pair-references-missing-rise', repr(rise_start))
        lo = max(storm_start, rise_start)
        hi = min(storm_rows[storm_start], rise_rows[rise_start])
        if not lo < hi:
            raise Violation(
                'pair-does-not-overlap',
                'storm [{}, {}) rise [{}, {}]'.format(
                    storm_start, storm_rows[storm_start], rise_start,
                    rise_rows[rise_start]))
    if t['thresholds'] != [(s, j)]:
        raise Violation('thresholds-not-recorded', repr(t['thresholds']))
    if t['pairs']:
        out.add('has-pairs')
    if out & {'contention', 'run-touches-stretch-end', '>=2-data-intervals',
              'stretch<2-samples'}:
        out.add('nontrivial')
    return out


@st.composite
def interrupted_cases(draw, tier):
    from vfw.props.C02 import chain_records
    record = draw(st.one_of(
        gen_records.records(max_steps=24), chain_records()))
    record['frac'] = draw(st.floats(0.0, 0.999))
    record['exc'] = draw(st.sampled_from(['interrupt', 'runtime', 'sqlite']))
    return record


def check_after_interrupt(case):
    """A classify attempt that is interrupted (Ctrl-C, an error) at some
    statement leaves a dataset that still 'loads': classification of it must
    complete like any other."""
    import os
    import sqlite3
    from vfw import dataset, faults
    s, j = case['s'], case['j']
    with dataset.scratch_dir() as directory:
        db = os.path.join(directory, 'data.sqlite3')
        try:
            dataset.cli_load(case, db, directory)
        except (ValueError, sqlite3.IntegrityError) as exc:
            from vfw.core import Reject
            raise Reject('load-refused') from exc
        argv = ['classify', db, '-s', repr(float(s)), '-j', repr(float(j))]
        # count the statements of a clean run on a copy
        probe = os.path.join(directory, 'probe.sqlite3')
        shutil.copyfile(db, probe)
        plan = faults.Plan('count')
        try:
            with faults.injected(plan):
                dataset.cli(['classify', probe] + argv[2:])
        except Exception:  # pylint: disable=broad-except
            pass
        n = plan.count
        if n == 0:
            from vfw.core import Reject
            raise Reject('no statements')
        k = 1 + min(n - 1, int(case['frac'] * n))
        plan = faults.Plan('fault', k=k, exception=case['exc'])
        try:
            with faults.injected(plan):
                dataset.cli(argv)
        except (Exception, KeyboardInterrupt):  # pylint: disable=broad-except
            pass
        error = None
        try:
            dataset.cli(argv)
        except Exception as exc:  # pylint: disable=broad-except
            error = exc
        connection = sqlite3.connect(db)
        try:
            labels = verify(dict(case, cli=True), connection, error)
        finally:
            connection.close()
    labels.add('interrupted-at-{}'.format(
        'first-statement' if k == 1 else 'later-statement'))
    if plan.fired and k > 1:
        labels.add('nontrivial')
    return labels


def check_matching_one_to_one(case):
    """The pairing core on an enumerated instance (the instances of C02's
    exhaustive part): whatever preferences say, the result pairs every
    storm and every rise at most once and only along candidate edges."""
    from vfw.props import C02
    from vfw import model_matching as mm
    s_order, _, cand, prefs, _ = C02.case_to_inputs(case)
    edges = {(s, r) for s, rs in s_order.items() for r in rs}
    result = dict(C02.run_fsm(cand, prefs))
    bad = mm.is_matching(result, edges)
    if bad:
        raise Violation(bad, repr(result))
    labels = set()
    if mm.max_degree(edges) >= 2:
        labels.add('nontrivial')
    return labels


def enum_matching(tier, shard, nshards):
    from vfw.props import C02
    stride = 1 if tier == 'thorough' else 4
    for index, case in enumerate(C02.enum_cases(tier, shard, nshards)):
        if index % stride == 0:
            yield case


PARTS = [
    Part('matching_enum', check_matching_one_to_one, enumerate=enum_matching,
         shards={'quick': 16, 'thorough': 16},
         exhaustive={'quick': False, 'thorough': True},
         describe='find_stable_matching one-to-one on the strict instances '
                  '<= 3x3 (every 4th in the quick tier, all 131,817 in the '
                  'thorough tier)'),
    Part('after_interrupt', check_after_interrupt,
         strategy=lambda tier: interrupted_cases(tier),
         budget={'quick': 40, 'thorough': 600},
         describe='classify completes on a dataset whose previous classify '
                  'attempt was interrupted'),
    Part('records', check, strategy=lambda tier: cases(tier),
         budget={'quick': 375, 'thorough': 4000},
         describe='load + classify on generated records'),
    Part('records_fuzz', check, fuzz_of='records', fuzz_runs=15000,
         shards={'quick': 0, 'thorough': 4},
         describe='atheris campaign over the records strategy and oracle '
                  '(thorough tier only)'),
]
