"""C14 -- spline specific yield interpolates its knots and integrates
consistently (inside, straddling and beyond the knot range, either order)."""

import copy

import numpy as np
import scipy.integrate
from hypothesis import strategies as st

from vfw import tree, gen_params
from vfw.core import Part, Violation, guarded

LEVEL = 'exploration'
RULE = (
    '4-10 strictly increasing knots (spacing 0.5-800 mm, even / mixed / '
    'tight), values in [0, 1.5] (free, constant or monotone); integration '
    'limits a, b, c forced into the classes both-below, both-above, '
    'straddle-low, straddle-high, straddle-both, inside, reversed and equal. '
    'Oracle: value at every knot; constancy outside the range; I(a,b) equals '
    'an independent quadrature of the same callable with every knot as a '
    'break point (rel 1e-9 of the integral of |f|); additivity '
    'I(a,b)+I(b,c)=I(a,c); antisymmetry; I(a,a)=0. Non-trivial: a limit '
    'lies outside the knot range or the limits are reversed; distinct = '
    'SHA-1 of the canonical case.'
)
ASSUMPTIONS = [
    'scipy.integrate.quad with break points reaches 1e-11 on a cubic',
]

CLASSES = ['both-below', 'both-above', 'straddle-low', 'straddle-high',
           'straddle-both', 'inside', 'reversed', 'equal']


@st.composite
def cases(draw):
    params = draw(gen_params.spline_sy())
    z = params['zeta_knots_mm']
    lo, hi = z[0], z[-1]
    klass = draw(st.sampled_from(CLASSES))
    out = st.floats(0.001, 500.0)
    inside = st.floats(lo, hi)

    def pick(where):
        if where == 'below':
            return lo - draw(out)
        if where == 'above':
            return hi + draw(out)
        if where == 'knot':
            return draw(st.sampled_from(z))
        return draw(inside)

    if klass == 'both-below':
        a, b = sorted((pick('below'), pick('below')))
    elif klass == 'both-above':
        a, b = sorted((pick('above'), pick('above')))
    elif klass == 'straddle-low':
        a, b = pick('below'), pick(draw(st.sampled_from(['in', 'knot'])))
    elif klass == 'straddle-high':
        a, b = pick(draw(st.sampled_from(['in', 'knot']))), pick('above')
    elif klass == 'straddle-both':
        a, b = pick('below'), pick('above')
    elif klass == 'inside':
        a, b = sorted((pick('in'), pick('in')))
    elif klass == 'reversed':
        a, b = sorted((pick(draw(st.sampled_from(['below', 'in', 'above']))),
                       pick(draw(st.sampled_from(['below', 'in', 'above'])))),
                      reverse=True)
    else:
        a = b = pick(draw(st.sampled_from(['below', 'in', 'above', 'knot'])))
    c = pick(draw(st.sampled_from(['below', 'in', 'above', 'knot'])))
    probes = [pick('below'), pick('above'), pick('in')]
    return {'params': params, 'a': a, 'b': b, 'c': c, 'class': klass,
            'probes': probes}


def reference_integral(f, a, b, knots):
    if a == b:
        return 0.0, 0.0
    sign = 1.0
    if a > b:
        a, b, sign = b, a, -1.0
    pts = [a] + [k for k in knots if a < k < b] + [b]
    total = 0.0
    total_abs = 0.0
    for lo, hi in zip(pts[:-1], pts[1:]):
        val, _ = scipy.integrate.quad(
            lambda x: float(f(x)), lo, hi, epsabs=1e-13, epsrel=1e-13,
            limit=200)
        total += val
        aval, _ = scipy.integrate.quad(
            lambda x: abs(float(f(x))), lo, hi, epsabs=1e-12, epsrel=1e-12,
            limit=200)
        total_abs += aval
    return sign * total, total_abs


def check(case):
    sy_mod = tree.mod('specific_yield')
    params = copy.deepcopy(case['params'])
    z, v = params['zeta_knots_mm'], params['sy_knots']
    f = guarded(sy_mod.create_specific_yield_function, copy.deepcopy(params))
    lo, hi = z[0], z[-1]
    vmax = max(1.0, max(abs(x) for x in v))
    # knots
    for zi, vi in zip(z, v):
        got = float(guarded(f, zi))
        if abs(got - vi) > 1e-9 * vmax:
            raise Violation('knot-not-interpolated',
                            'f({})={!r} expected {!r}'.format(zi, got, vi))
    # constant outside
    f_lo, f_hi = float(guarded(f, lo)), float(guarded(f, hi))
    for p in case['probes'][:2] + [lo - 1e-9, hi + 1e-9, lo - 1e6, hi + 1e6]:
        got = float(guarded(f, p))
        want = f_lo if p < lo else f_hi
        if abs(got - want) > 1e-12 * vmax:
            raise Violation(
                'not-constant-outside-knots',
                'f({!r})={!r}, end value {!r}'.format(p, got, want))
    # integer-typed arguments (whole-millimetre levels written without a
    # decimal point, np.arange grids) are the same levels
    whole = [zi for zi in z if float(zi).is_integer()] + [
        float(int(pv)) for pv in case['probes']]
    for zi in whole:
        as_float = float(guarded(f, float(zi)))
        as_int = float(np.asarray(guarded(f, int(zi)), dtype=float))
        as_arr = np.asarray(guarded(f, np.array([int(zi)])), dtype=float)
        if abs(as_int - as_float) > 1e-12 * vmax or abs(
                float(as_arr[0]) - as_float) > 1e-12 * vmax:
            raise Violation(
                'integer-typed-level-differs',
                'f({})={!r} as int, {!r} in an int array, {!r} as '
                'float'.format(int(zi), as_int, float(as_arr[0]), as_float))
    # array argument agrees with scalars
    arr = np.array([case['probes'][0], case['probes'][2], case['probes'][1]])
    got_arr = np.asarray(guarded(f, arr), dtype=float)
    for p, g in zip(arr, got_arr):
        if abs(float(guarded(f, float(p))) - g) > 1e-12 * vmax:
            raise Violation('array-scalar-mismatch', repr((p, g)))
    a, b, c = case['a'], case['b'], case['c']

    def integ(p, q):
        return float(guarded(f.integrate, p, q))

    I_ab = integ(a, b)
    ref, ref_abs = reference_integral(f, a, b, z)
    # an interpolating cubic through unevenly spaced knots can swing to 1e5
    # between them; its B-spline coefficients are that large and every
    # integral carries their rounding, wherever the limits lie
    swing = float(np.abs(np.asarray(guarded(
        f, np.linspace(lo, hi, 2001)), dtype=float)).max())
    tol = 1e-9 * (ref_abs + 1e-9) + 1e-9 + 1e-13 * swing * (hi - lo)
    if abs(I_ab - ref) > tol:
        raise Violation(
            'integral-not-area:' + _where(a, b, lo, hi),
            'I({!r},{!r})={!r}, quadrature {!r}'.format(a, b, I_ab, ref))
    I_ba = integ(b, a)
    if abs(I_ab + I_ba) > tol:
        raise Violation('integral-not-antisymmetric',
                        'I(a,b)={!r} I(b,a)={!r}'.format(I_ab, I_ba))
    I_bc, I_ac = integ(b, c), integ(a, c)
    _, abs_bc = reference_integral(f, b, c, z)
    tol3 = (1e-9 * (ref_abs + abs_bc + 1e-9) + 1e-9
            + 1e-13 * swing * (hi - lo))
    if abs(I_ab + I_bc - I_ac) > tol3:
        raise Violation(
            'integral-not-additive',
            'a={!r} b={!r} c={!r}: {!r}+{!r}!={!r}'.format(
                a, b, c, I_ab, I_bc, I_ac))
    if integ(a, a) != 0 or integ(c, c) != 0:
        raise Violation('integral-equal-limits-nonzero', repr(a))
    labels = {case['class']}
    outside = a < lo or a > hi or b < lo or b > hi
    if outside or a > b:
        labels.add('nontrivial')
    return labels


def _where(a, b, lo, hi):
    p, q = min(a, b), max(a, b)
    if q <= lo:
        return 'both-below'
    if p >= hi:
        return 'both-above'
    if p < lo and q > hi:
        return 'straddle-both'
    if p < lo:
        return 'straddle-low'
    if q > hi:
        return 'straddle-high'
    return 'inside'


PARTS = [
    Part('spline_sy', check, strategy=lambda tier: cases(),
         budget={'quick': 375, 'thorough': 6000},
         describe='SplineSpecificYield values and integrate()'),
]
