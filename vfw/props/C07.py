"""C07 -- results do not depend on the time origin."""

import sqlite3

import pytz
from hypothesis import strategies as st

from vfw import dataset, dbdump, gen_records, gen_truth, tree
from vfw.core import Part, Violation, Reject, exception_signature
from vfw.props.C11 import fixed_offset_seconds

LEVEL = 'exploration'
RULE = (
    'Records from G-scenario and G-truth (steps of 600, 1200 and 2400 s '
    'over-sampled: their length in hours is not a binary fraction; '
    'increments exactly equal to threshold*step occur in dry spells and at '
    'the edges of rises) loaded twice: at t0 and at t0 + m*step (|m| from 1 '
    'to 10^6, so that epoch/3600 rounds differently), and once more with '
    'the same wall-clock text declared in another fixed-offset zone (Etc/GMT+-k, '
    'UTC, and geographic zones with a constant offset such as Africa/Lagos or '
    'Asia/Kolkata). Each '
    'load goes through load, classify, set-zeta-grid, rise, recession. '
    'Oracle (metamorphic): every step succeeds or fails alike (same '
    'exception type); after subtracting the shift from every epoch column '
    'the logical dumps are identical - flags, storms, rises, interstorm '
    'intervals, pairing bit for bit; master-curve tables to 1e-9 relative. '
    'Non-trivial: step/3600 is not a binary fraction and the record holds '
    'an exact-threshold increment; or the two loads differ in time zone; '
    'distinct = SHA-1 of the case.'
)
ASSUMPTIONS = ['the harness renders the same record at both origins']

FIXED_ZONES = ['UTC', 'Etc/GMT-7', 'Etc/GMT+5', 'Etc/GMT-12', 'Etc/GMT+11',
               'Etc/GMT-1', 'Africa/Lagos', 'Asia/Brunei', 'Asia/Kolkata',
               'Asia/Tokyo', 'America/Phoenix', 'Africa/Johannesburg',
               # offsets that are not whole hours (nor whole steps)
               'Asia/Yangon', 'Australia/Darwin', 'Asia/Kabul', 'Asia/Kolkata']
# geographic zones whose offset has been constant for decades (and over the
# whole generated date range, 2013-2018): fixed-offset in effect, but their
# tz database entries start with a local-mean-time era
GEOGRAPHIC_OFFSETS = {'Africa/Lagos': 3600, 'Asia/Brunei': 8 * 3600,
                      'Asia/Kolkata': 19800, 'Asia/Tokyo': 9 * 3600,
                      'America/Phoenix': -7 * 3600,
                      'Africa/Johannesburg': 2 * 3600,
                      'Asia/Yangon': 23400, 'Australia/Darwin': 34200,
                      'Asia/Kabul': 16200}


def zone_offset(name):
    if name in GEOGRAPHIC_OFFSETS:
        return GEOGRAPHIC_OFFSETS[name]
    return fixed_offset_seconds(name)
SHIFTS = [1, -1, 2, 3, 7, 40, -13, 1000, 99991, -250000, 1000000]
FLOAT_TABLES = ('rising_interval', 'rising_interval_zeta',
                'recession_interval', 'recession_interval_zeta')


@st.composite
def cases(draw, tier):
    kind = draw(st.sampled_from(['scenario', 'truth', 'truth-noisy']))
    dts = [600, 1200, 2400, 1200, 2400, 900, 3600]
    if kind == 'scenario':
        record = draw(gen_records.scenario_records(
            max_events=12, min_events=4, allow_gaps=draw(st.booleans())))
        # over-sample non-binary steps by re-drawing the header
        new_dt = draw(st.sampled_from(dts))
        record['wl'] = [[(off // record['dt']) * new_dt, v]
                        for off, v in record['wl']]
        record['j'] = (record['thr_units'] / 8.0) * 3600.0 / new_dt
        record['dt'] = new_dt
        record['t0'] = gen_records.draw_t0(draw, new_dt)
    else:
        record = draw(gen_truth.truth_records(
            noise=(kind == 'truth-noisy'), dts=dts, min_storms=3,
            max_storms=6, gaps=True))
    record['tz'] = draw(st.sampled_from(FIXED_ZONES))
    record['grid'] = draw(st.sampled_from([1.0, 0.5, 0.25, 0.1]))
    record['shift_steps'] = draw(st.sampled_from(SHIFTS))
    record['tz2'] = draw(st.sampled_from(FIXED_ZONES))
    return record


def run_workflow(case):
    """Returns (connection, outcome list)."""
    connection = sqlite3.connect(':memory:')
    outcomes = []
    try:
        connection.close()
        connection = dataset.load_memory(case)
    except (ValueError, sqlite3.IntegrityError) as exc:
        raise Reject('load-refused') from exc
    steps = [
        ('classify', lambda: tree.mod('classify').classify_intervals(
            connection, case['s'], case['j'])),
        ('set-zeta-grid', lambda: (tree.mod('zeta_grid').populate_zeta_grid(
            connection, case['grid']), connection.commit())),
        ('rise', lambda: tree.mod('rise').find_rise_offsets(connection)),
        ('recession', lambda: tree.mod('recession').find_recession_offsets(
            connection)),
    ]
    for name, fn in steps:
        try:
            fn()
            outcomes.append((name, 'ok'))
        except Exception as exc:  # pylint: disable=broad-except
            connection.rollback()
            outcomes.append((name, type(exc).__name__,
                             exception_signature(exc) or repr(exc)))
    return connection, outcomes


def compare(case, other, shift, what):
    conn_a, out_a = run_workflow(case)
    try:
        conn_b, out_b = run_workflow(other)
    except BaseException:
        conn_a.close()
        raise
    try:
        if [o[:2] for o in out_a] != [o[:2] for o in out_b]:
            raise Violation(
                'step-outcome-depends-on-' + what,
                '{} vs {}'.format(out_a, out_b))
        skip = (('time_grid', 'source_time_zone'),)
        dump_a = dbdump.dump(conn_a, shift=0, skip_columns=skip)
        dump_b = dbdump.dump(conn_b, shift=shift, skip_columns=skip)
        difference = dbdump.diff(dump_a, dump_b, rel=1e-9,
                                 float_tables=FLOAT_TABLES)
        if difference:
            table = difference.split(':')[0].replace('table ', '')
            raise Violation(
                'result-depends-on-{}:{}'.format(what, table), difference)
        return out_a, dump_a
    finally:
        conn_a.close()
        conn_b.close()


def check(case):
    dt = case['dt']
    labels = {case.get('gen', '?')}
    shifted = dict(case)
    shift = case['shift_steps'] * dt
    shifted['t0'] = case['t0'] + shift
    outcomes, dump = compare(case, shifted, shift, 'origin')
    # same wall-clock text declared in another fixed-offset zone
    off1 = zone_offset(case['tz'])
    off2 = zone_offset(case['tz2'])
    rezoned = dict(case)
    rezoned['tz'] = case['tz2']
    rezoned['t0'] = case['t0'] + (off1 - off2)
    if dataset.render_files(case) != dataset.render_files(rezoned):
        raise AssertionError('harness: rezoned text differs')
    compare(case, rezoned, off1 - off2, 'time-zone')
    # labels
    thr = case.get('thr_units')
    levels = [v for _, v in case['wl']]
    exact_inc = thr is not None and any(
        round((b - a) * 8) == thr for a, b in zip(levels[:-1], levels[1:]))
    if dt % 225:
        labels.add('step-not-binary-fraction-of-hour')
    if exact_inc:
        labels.add('exact-threshold-increment')
    if case['tz'] != case['tz2']:
        labels.add('zones-differ')
    for name, status, *_ in outcomes:
        labels.add('{}-{}'.format(name, 'ok' if status == 'ok' else 'fails'))
    if dump['tables'].get('recession_interval', {}).get('rows'):
        labels.add('has-recession-curve')
    if (dt % 225 and exact_inc) or case['tz'] != case['tz2']:
        labels.add('nontrivial')
    return labels


PARTS = [
    Part('origins', check, strategy=lambda tier: cases(tier),
         budget={'quick': 75, 'thorough': 1500},
         describe='two origins and two zones through the whole workflow'),
]
