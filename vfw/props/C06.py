"""C06 -- a planted master curve is recovered through the whole CLI
workflow, from raw text files to the master-curve tables."""

from fractions import Fraction as F

from hypothesis import strategies as st

from vfw import gen_truth, model_master
from vfw.core import Part, Violation, Reject, guarded
from vfw.pipeline import Workflow

LEVEL = 'exploration'
RULE = (
    'G-truth records (strictly decreasing recession curve on the sampling '
    'lattice, constant specific yield in {1/8..1}, 3-8 storms each lifting '
    'the level along the curve in 1-4 heavy steps plus a drizzle step, dry '
    'spells of 3-14 steps, in a third of the cases one or two readings skipped '
    'inside a dry spell) x time step x grid step (dyadic 1, 0.5, 0.25, 2; '
    'decimal 0.1, 0.2, 0.3, 0.7, 2.5, 5) x thresholds consistent with the '
    'truth, always through user_interface.main on files: load, classify, '
    'set-zeta-grid, rise, recession. Oracle: average_rising_depth(level) = '
    'Sy*(level - top level) (rel 1e-9); average_recession_time(level) = '
    'tau(level) - tau(top level), tau the exact inverse of the planted curve '
    '(1e-6 s); for every level all aligned pieces (offset + crossing) '
    'coincide; the reported levels and intervals are exactly the main body '
    'of the exact crossing model (decimal-step cases with a sample within '
    '2 ulp of a level are left out on a mismatch and counted). A curve whose '
    'main body is ambiguous on the model side (DESIGN O2) is skipped and '
    'counted. The two curves are assembled in either order and, in some '
    'cases, set-zeta-grid is attempted once more between them (refused => '
    'nothing changes; accepted => both curves are judged on the grid the '
    'file then declares). Non-trivial: both curves assembled from >= 3 intervals each '
    'and spanning >= 8 levels; distinct = SHA-1 of the case.'
)
ASSUMPTIONS = ['classification of the planted record is as constructed '
               '(checked: the model main body must be found by the code)']


@st.composite
def cases(draw, tier):
    record = draw(gen_truth.truth_records(noise=False, gaps=True))
    grid = draw(st.sampled_from(
        ['1.0', '0.5', '0.25', '2.0', '1.0', '0.5',
         '0.1', '0.2', '0.3', '0.7', '2.5', '5.0']))
    record['grid'] = grid
    # the two curves in either order, and between them an attempt to set the
    # grid again (refused today)
    record['curve_order'] = draw(st.sampled_from(
        [['rise', 'recession'], ['recession', 'rise']]))
    record['regrid'] = draw(st.sampled_from([None, None, '0.5', '2.0', '1.0']))
    if record['regrid'] == grid:
        record['regrid'] = None
    return record


def tau(r_units, dt, level):
    """Time (s) at which the planted curve passes `level` (Fraction mm)."""
    u = level * 8  # lattice units
    for m in range(len(r_units) - 1):
        hi, lo = r_units[m], r_units[m + 1]
        if lo <= u <= hi:
            return (m + F(hi - u, hi - lo)) * dt
    raise KeyError(level)


def read_curve(connection, which):
    if which == 'rise':
        intervals = dict(connection.execute(
            'SELECT start_epoch, rain_depth_offset_mm FROM rising_interval'))
        rows = connection.execute(
            'SELECT start_epoch, zeta_number, mean_crossing_depth_mm '
            'FROM rising_interval_zeta').fetchall()
    else:
        intervals = dict(connection.execute(
            'SELECT start_epoch, time_offset_s FROM recession_interval'))
        rows = connection.execute(
            'SELECT start_epoch, zeta_number, mean_crossing_time '
            'FROM recession_interval_zeta').fetchall()
    per_level = {}
    for start, k, crossing in rows:
        if start not in intervals:
            raise Violation(
                '{}-crossing-row-without-interval'.format(which),
                'crossing rows are stored for {} which has no row in the '
                'interval table (foreign keys are off on CLI '
                'connections)'.format(start))
        per_level.setdefault(k, {})[start] = intervals[start] + crossing
    return intervals, per_level


def verify_curve(case, connection, which, h, expect_value, tol_abs):
    if which == 'rise':
        series, _ = model_master.rise_series(connection)
    else:
        series = model_master.recession_series(connection)
    table, ambiguous = model_master.crossing_table(series, h)
    members, levels, unambiguous = model_master.main_body(table)
    return (series, table, ambiguous, members, levels, unambiguous)


def check(case):
    h = float(case['grid'])
    truth = case['truth']
    labels = {'grid-' + case['grid']}
    with Workflow(case) as wf:
        guarded(wf.load)
        guarded(wf.classify)
        guarded(wf.zeta_grid, case['grid'])
        connection = wf.connect()
        try:
            plans = {}
            for which in ('rise', 'recession'):
                plans[which] = verify_curve(case, connection, which, h,
                                            None, None)
        finally:
            connection.close()
        results = {}
        runs = {'rise': wf.rise, 'recession': wf.recession}
        order = case.get('curve_order') or ['rise', 'recession']
        for position, which in enumerate(order):
            if position == 1 and case.get('regrid') and results:
                # set-zeta-grid once more between the two curves: whatever
                # happens, both curves must be the planted truth on the grid
                # the file then declares
                try:
                    wf.zeta_grid(case['regrid'])
                except Exception:  # pylint: disable=broad-except
                    labels.add('regrid-refused')
                else:
                    labels.add('regrid-accepted')
                connection = wf.connect()
                try:
                    (h_now,) = connection.execute(
                        'SELECT grid_interval_mm FROM zeta_grid').fetchone()
                    if h_now != h:
                        h = h_now
                        for w in ('rise', 'recession'):
                            plans[w] = verify_curve(case, connection, w, h,
                                                    None, None)
                finally:
                    connection.close()
            unambiguous = plans[which][5]
            if not unambiguous:
                labels.add(which + '-main-body-ambiguous')
                continue
            guarded(runs[which])
            results[which] = True
        connection = wf.connect()
        try:
            for which in results:
                if not plans[which][5]:
                    continue
                labels |= compare(case, connection, which, h, plans[which])
        finally:
            connection.close()
    if {'rise>=3x8', 'recession>=3x8'} <= labels:
        labels.add('nontrivial')
    if not results:
        raise Reject('both main bodies ambiguous')
    return labels


def compare(case, connection, which, h, plan):
    series, table, ambiguous, members, levels, _ = plan
    truth = case['truth']
    intervals, per_level = read_curve(connection, which)

    def mismatch(sig, detail):
        if ambiguous:
            raise Reject('decimal-step-ambiguous-level')
        raise Violation(sig, detail)

    if set(intervals) != members:
        mismatch('{}-intervals-not-main-body'.format(which),
                 'got {} expected {}'.format(
                     sorted(intervals), sorted(members)))
    if set(per_level) != levels:
        mismatch('{}-master-curve-levels-differ'.format(which),
                 'missing {} extra {}'.format(
                     sorted(levels - set(per_level))[:6],
                     sorted(set(per_level) - levels)[:6]))
    top = max(per_level)
    hF = F(h)
    values = {}
    for k, row in per_level.items():
        if set(row) != set(table[k]):
            mismatch('{}-level-pieces-differ'.format(which), repr(k))
        vals = list(row.values())
        values[k] = sum(vals) / len(vals)
    scale = max(abs(v) for v in values.values()) + 1.0
    if which == 'rise':
        tol = 1e-9 * scale
    else:
        tol = 1e-6 + 1e-9 * scale
    for k, row in per_level.items():
        spread = max(row.values()) - min(row.values())
        if spread > 2 * tol:
            raise Violation(
                '{}-pieces-do-not-coincide'.format(which),
                'level {}: spread {!r}'.format(k, spread))
    sy = F(truth['sy'])
    for k, value in values.items():
        if which == 'rise':
            want = sy * (k * hF - top * hF)
        else:
            want = (tau(truth['r_units'], case['dt'], k * hF)
                    - tau(truth['r_units'], case['dt'], top * hF))
        if abs(F(value) - want) > F(tol):
            raise Violation(
                '{}-curve-not-planted-truth'.format(which),
                'level {} ({} mm): got {!r} expected {!r}'.format(
                    k, float(k * hF), value, float(want)))
    if abs(values[top]) > tol:
        raise Violation('{}-origin-not-highest-level'.format(which),
                        repr(values[top]))
    out = set()
    if len(intervals) >= 3 and len(per_level) >= 8:
        out.add(which + '>=3x8')
    return out


PARTS = [
    Part('workflow', check, strategy=lambda tier: cases(tier),
         budget={'quick': 40, 'thorough': 600},
         describe='planted truth through the CLI workflow'),
]
