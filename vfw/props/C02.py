"""C02 -- the storm-rise matching is stable, storm-optimal without ties and
independent of the order in which storms are considered."""

import copy
import itertools

from hypothesis import strategies as st

from vfw import tree, gen_records, model_matching as mm
from vfw import classify_common as cc
from vfw.core import Part, Violation, guarded

LEVEL = 'exploration'
RULE = (
    'Level 1 (find_stable_matching): (a) EXHAUSTIVE enumeration of every '
    'candidate graph without isolated vertices on <= 3 storms x <= 3 rises '
    'with every strict preference profile on both sides (thorough adds a '
    'seeded stride through 4x3 and 3x4); (b) random bipartite graphs up to '
    '6x6 with arbitrary rise-side quality values (with and without ties) and '
    'arbitrary storm labels. Level 2 (disambiguate_matching): disjoint '
    'storms and rises on an integer line, one candidate per overlapping '
    'pair, shuffled (a third of them on a long line: storms and rises lasting 1 to 3000 steps). Level 3: contention-rich records through classify, '
    'candidate graph recomputed from the loaded tables by the reference '
    'model. Oracle: result is a one-to-one subset of the candidates; no '
    'blocking pair (brute force); without ties it equals the storm-optimal '
    'stable matching found by enumerating all stable matchings; relabelling '
    '/ reordering storms and candidates yields the same matching. At data '
    'level a pair is reported blocking only if it blocks under both duration '
    'conventions (elapsed time; the code\'s sample count). Non-trivial: some '
    'vertex has degree >= 2 and two storms share their first choice (a '
    'rejection or displacement must happen); distinct = SHA-1 of the case.'
)
ASSUMPTIONS = ['brute-force enumeration of matchings in vfw/model_matching.py']


# ---------------------------------------------------------------- level 1

def run_fsm(storm_candidates, jump_preferences):
    fsm = tree.mod('classify').find_stable_matching
    return guarded(fsm, copy.deepcopy(storm_candidates),
                   copy.deepcopy(jump_preferences))


def verify_instance(edges, storm_pref, rise_pref, result, label_map=None):
    """Common oracle.  result: dict rise -> storm."""
    edges = set(edges)
    bad = mm.is_matching(result, edges)
    if bad:
        raise Violation(bad, repr(result))
    blocking = mm.blocking_pairs(result, edges, storm_pref, rise_pref)
    if blocking:
        raise Violation('blocking-pair', 'pairs {} in matching {}'.format(
            blocking, result))
    ties = mm.has_ties(edges, storm_pref, rise_pref)
    if not ties:
        best = mm.storm_optimal(edges, storm_pref, rise_pref)
        if best is None:
            raise AssertionError('model found no storm-optimal matching')
        if best != result:
            raise Violation('not-storm-optimal',
                            'got {} storm-optimal {}'.format(result, best))
    labels = set()
    if ties:
        labels.add('ties')
    if mm.max_degree(edges) >= 2:
        labels.add('degree>=2')
        if mm.first_choices_conflict(edges, storm_pref):
            labels.add('nontrivial')
    return labels


def case_to_inputs(case, storm_labels=None, order=None):
    """case: {'s_order': {storm: [rises worst..best]},
              'r_quality': {rise: {storm: value}}}  (string keys in JSON)"""
    s_order = {int(k): v for k, v in case['s_order'].items()}
    r_quality = {int(k): {int(s): q for s, q in v.items()}
                 for k, v in case['r_quality'].items()}
    relabel = storm_labels or {s: s for s in s_order}
    storms = list(s_order)
    if order:
        storms = [storms[i] for i in order]
    storm_candidates = {relabel[s]: list(s_order[s]) for s in storms}
    jump_preferences = {
        r: {relabel[s]: q for s, q in v.items()}
        for r, v in r_quality.items()}
    return s_order, r_quality, storm_candidates, jump_preferences, relabel


def check_fsm(case):
    s_order, r_quality, cand, prefs, _ = case_to_inputs(case)
    edges = {(s, r) for s, rs in s_order.items() for r in rs}
    storm_pref = {(s, r): i for s, rs in s_order.items()
                  for i, r in enumerate(rs)}
    rise_pref = {(r, s): q for r, v in r_quality.items()
                 for s, q in v.items()}
    result = run_fsm(cand, prefs)
    labels = verify_instance(edges, storm_pref, rise_pref, dict(result))
    if not mm.has_ties(edges, storm_pref, rise_pref):
        # order independence: relabel storms so that set/dict order changes
        for relabel_kind in case.get('relabels', []):
            storms = sorted(s_order)
            if relabel_kind == 'reverse':
                new = {s: 1000 - s for s in storms}
                order = list(reversed(range(len(storms))))
            elif relabel_kind == 'strings':
                new = {s: 'storm-{}'.format((s * 7919) % 104729)
                       for s in storms}
                order = None
            else:
                new = {s: (s * 2654435761) % 1000003 for s in storms}
                order = list(range(len(storms)))[1:] + [0]
            _, _, cand2, prefs2, _ = case_to_inputs(case, new, order)
            back = {v: k for k, v in new.items()}
            result2 = run_fsm(cand2, prefs2)
            mapped = {r: back[s] for r, s in result2.items()}
            if mapped != dict(result):
                raise Violation(
                    'depends-on-storm-order',
                    'labels {}: {} vs {}'.format(
                        relabel_kind, mapped, dict(result)))
        labels.add('relabelled')
    return labels


@st.composite
def random_instances(draw):
    ns = draw(st.integers(1, 6))
    nr = draw(st.integers(1, 6))
    density = draw(st.sampled_from([0.3, 0.5, 0.8, 1.0]))
    edges = [(s, r) for s in range(ns) for r in range(nr)
             if draw(st.floats(0, 1)) <= density]
    if not edges:
        edges = [(0, 0)]
    tie_mode = draw(st.sampled_from(['strict', 'strict', 'ties']))
    s_order, r_quality = {}, {}
    for s in sorted({s for s, _ in edges}):
        rs = [r for s2, r in edges if s2 == s]
        s_order[str(s)] = list(draw(st.permutations(rs)))
    for r in sorted({r for _, r in edges}):
        ss = [s for s, r2 in edges if r2 == r]
        if tie_mode == 'strict':
            vals = draw(st.permutations(range(len(ss))))
            r_quality[str(r)] = {str(s): -float(v) for s, v in zip(ss, vals)}
        else:
            r_quality[str(r)] = {
                str(s): -float(draw(st.integers(0, 2))) for s in ss}
    return {'s_order': s_order, 'r_quality': r_quality,
            'relabels': ['reverse', 'strings', 'hash']}


SIZES_QUICK = [(ns, nr) for ns in (1, 2, 3) for nr in (1, 2, 3)]


def enum_cases(tier, shard, nshards):
    index = 0
    for ns, nr in SIZES_QUICK:
        for edges, sp, rp in mm.enumerate_strict_instances(ns, nr):
            if index % nshards == shard:
                yield {
                    's_order': {str(s): list(sp[s]) for s in range(ns)},
                    'r_quality': {
                        str(r): {str(s): float(i)
                                 for i, s in enumerate(rp[r])}
                        for r in range(nr)},
                    'relabels': ['reverse'] if index % 7 == 0 else [],
                }
            index += 1


def enum_stride(tier, shard, nshards):
    """Seeded stride through the 4x3 and 3x4 strict instances (thorough)."""
    if tier != 'thorough':
        return
    import os
    seed = int(os.environ.get('VERIF_SEED') or '1')
    stride = 997
    index = 0
    for ns, nr in ((4, 3), (3, 4)):
        for edges, sp, rp in mm.enumerate_strict_instances(ns, nr):
            if (index + seed) % stride == 0 and (
                    index // stride) % nshards == shard:
                yield {
                    's_order': {str(s): list(sp[s]) for s in range(ns)},
                    'r_quality': {
                        str(r): {str(s): float(i)
                                 for i, s in enumerate(rp[r])}
                        for r in range(nr)},
                    'relabels': ['hash'],
                }
            index += 1


# ---------------------------------------------------------------- level 2

@st.composite
def geometric(draw):
    """Disjoint storms / disjoint rises on an integer line.

    storms: (start, stop) half-open runs of rain steps
    rises:  (start, stop) sample slices; increments start..stop-2
    """
    n = draw(st.integers(4, 30))
    heavy = [draw(st.sampled_from([True, True, False])) for _ in range(n)]
    jump = [draw(st.sampled_from([True, True, False])) for _ in range(n)]
    from vfw.model_classify import runs
    storms = [(a, b + 1) for a, b in runs(heavy)]
    rises = [(p, q + 2) for p, q in runs(jump)]
    pairs = [[list(s), list(r)] for s in storms for r in rises
             if max(s[0], r[0]) < min(s[1], r[1] - 1)]
    perm = draw(st.permutations(range(len(pairs)))) if pairs else []
    perm2 = draw(st.permutations(range(len(pairs)))) if pairs else []
    return {'pairs': pairs, 'perm': list(perm), 'perm2': list(perm2)}


LONG_RUNS = [1, 2, 3, 10, 11, 12, 1000, 1001, 1200, 1500, 1600, 3000]


@st.composite
def geometric_long(draw):
    """The same on a long line: storms and rises that last one step or
    thousands (a front that rains for a day on one-minute data), drawn as
    run lengths."""
    def intervals(extra, lengths=LONG_RUNS, gaps=(1, 2, 3, 10, 1200),
                  start=None, count=None):
        out = []
        at = draw(st.integers(0, 5)) if start is None else start
        for _ in range(count or draw(st.integers(1, 5))):
            length = draw(st.sampled_from(lengths))
            out.append((at, at + length + extra))
            at += length + extra + draw(st.sampled_from(gaps))
        return out
    shape = draw(st.sampled_from(['free', 'long-storm', 'long-rise']))
    short = [1, 2, 3, 10, 11, 12]
    far = (1, 3, 1000, 1200, 2000)
    if shape == 'free':
        storms = intervals(0)
        rises = intervals(1)
    elif shape == 'long-storm':
        # one storm lasting thousands of steps over several short rises far
        # apart (and perhaps short storms around competing for them)
        a = draw(st.integers(0, 20))
        long_one = (a, a + draw(st.sampled_from([1500, 3000, 5000])))
        rises = intervals(1, short, far, start=a + draw(st.integers(0, 3)),
                          count=draw(st.integers(2, 4)))
        storms = sorted([long_one] + intervals(
            0, short, far, start=long_one[1] + draw(st.integers(1, 5)),
            count=draw(st.integers(0, 2))))
    else:
        a = draw(st.integers(0, 20))
        long_one = (a, a + draw(st.sampled_from([1500, 3000, 5000])))
        storms = intervals(0, short, far,
                           start=max(0, a - draw(st.integers(0, 3))),
                           count=draw(st.integers(2, 4)))
        rises = sorted([long_one] + intervals(
            1, short, far, start=long_one[1] + draw(st.integers(1, 5)),
            count=draw(st.integers(0, 2))))
    pairs = [[list(s), list(r)] for s in storms for r in rises
             if max(s[0], r[0]) < min(s[1], r[1] - 1)]
    perm = draw(st.permutations(range(len(pairs)))) if pairs else []
    perm2 = draw(st.permutations(range(len(pairs)))) if pairs else []
    return {'pairs': pairs, 'perm': list(perm), 'perm2': list(perm2),
            'long': True}


def check_geometric(case):
    dm = tree.mod('classify').disambiguate_matching
    pairs = case['pairs']
    if not pairs:
        return {'no-candidates'}

    def run(perm):
        ordered = [pairs[i] for i in perm]
        rain = [tuple(p[0]) for p in ordered]
        jump = [tuple(p[1]) for p in ordered]
        out_r, out_j = guarded(dm, list(rain), list(jump))
        if len(out_r) != len(out_j):
            raise Violation('unequal-output-lengths', '')
        return {tuple(j): tuple(r) for r, j in zip(out_r, out_j)}

    result = run(case['perm'])
    edges = {(tuple(p[0]), tuple(p[1])) for p in pairs}
    storm_pref = {(s, r): -abs((s[1] - s[0]) - (r[1] - r[0]))
                  for s, r in edges}
    rise_pref = {(r, s): -abs(r[0] - s[0]) for s, r in edges}
    labels = verify_instance(edges, storm_pref, rise_pref, result)
    if case.get('long'):
        labels.add('runs-up-to-3000-steps')
    if 'ties' not in labels:
        other = run(case['perm2'])
        if other != result:
            raise Violation('depends-on-candidate-order',
                            '{} vs {}'.format(other, result))
    return labels


# ---------------------------------------------------------------- level 3

@st.composite
def contention_records(draw):
    """Records whose rain and increments stay 'on' for long mixed runs, so
    storms overlap several rises and vice versa; all steps rainy (no
    unexplained-rise interference), dry spells around."""
    dt, tz, t0 = draw(gen_records.header())
    s, j, thr_units = gen_records.thresholds(draw, dt)
    rain, incs = [], []
    for _ in range(draw(st.integers(1, 3))):
        for _ in range(draw(st.integers(1, 3))):
            rain.append(0.0)
            incs.append(gen_records.inc_units(draw, 'fall', thr_units))
        for _ in range(draw(st.integers(4, 14))):
            rain.append(gen_records.rain_value(draw, draw(st.sampled_from(
                ['heavy', 'heavy', 'hair', 'drizzle'])), s))
            incs.append(gen_records.inc_units(draw, draw(st.sampled_from(
                ['jump', 'jump', 'jump', 'small'])), thr_units))
    rain.append(0.0)
    incs.append(-1)
    z = [draw(st.integers(-100, 100))]
    for inc in incs:
        z.append(z[-1] + inc)
    removed = set()
    if draw(st.integers(0, 3)) == 0 and len(z) > 6:
        g = draw(st.integers(2, len(z) - 3))
        removed = {g}
    et = [0.125]
    fine = None
    if draw(st.integers(0, 2)) == 0:
        removed = set()
        fine = sorted(set(draw(st.lists(st.integers(1, len(z) - 3),
                                        min_size=1, max_size=2))))
    return gen_records.assemble(
        dt, t0, tz, rain, z, 0, [], [], removed, et, s, j,
        {'gen': 'gen-contention', 'thr_units': thr_units,
         'fine_removed': fine})


@st.composite
def chain_records(draw):
    """Storms and rises interleaved into a path: every inner storm overlaps
    two rises and every rise bridges two storms, so deferred acceptance has
    to reject and displace; the dry lead-in varies the storm start indices
    (and with them the order in which Python's set hands out the storms)."""
    dt, tz, t0 = draw(gen_records.header())
    s, j, thr_units = gen_records.thresholds(draw, dt)
    rain, incs = [], []
    for _ in range(draw(st.integers(0, 17))):
        rain.append(0.0)
        incs.append(gen_records.inc_units(draw, 'fall', thr_units))
    k = draw(st.integers(2, 5))
    for i in range(k):
        length = draw(st.integers(1, 5))
        brk = draw(st.integers(0, length - 1))
        for step in range(length):
            rain.append(gen_records.rain_value(draw, draw(st.sampled_from(
                ['heavy', 'heavy', 'heavy', 'hair'])), s))
            if step == brk and draw(st.integers(0, 4)) > 0:
                incs.append(gen_records.inc_units(draw, 'small', thr_units))
            else:
                incs.append(gen_records.inc_units(draw, 'jump', thr_units))
        for _ in range(draw(st.sampled_from([1, 1, 2]))):
            rain.append(gen_records.rain_value(draw, 'drizzle', s))
            incs.append(gen_records.inc_units(
                draw, 'jump' if i < k - 1 else 'small', thr_units))
    rain.append(0.0)
    incs.append(-1)
    z = [draw(st.integers(-100, 100))]
    for inc in incs:
        z.append(z[-1] + inc)
    return gen_records.assemble(
        dt, t0, tz, rain, z, 0, [], [], set(), [0.125], s, j,
        {'gen': 'gen-chain', 'thr_units': thr_units})


def check_records(case):
    """The recorded pairing against the candidate graph of the reference
    model; threshold*step and the increments are read exactly and as
    rounded doubles (C03), the pairing must be right under one reading."""
    from vfw.props.C03 import classify_and_model
    step, labels, stretches, t, _depth, readings = classify_and_model(case)
    failure = None
    for models in readings:
        try:
            return _check_pairing(case, step, labels, stretches, t, models)
        except Violation as vio:
            failure = failure or vio
    raise failure


def _check_pairing(case, step, labels, stretches, t, models):
    out = cc.record_labels(case, labels, stretches, models)
    pair_of_rise = dict(t['pairs'])
    for label, m in models.items():
        storms, rises = m['storms'], m['rises']
        storm_idx = {st_[0]: i for i, st_ in enumerate(storms)}
        rise_idx = {r[0]: i for i, r in enumerate(rises)}
        edges = set(m['edges'])
        match = {}
        for rise_start, storm_start in pair_of_rise.items():
            if rise_start in rise_idx:
                if storm_start not in storm_idx:
                    raise Violation('pair-across-stretches-or-unknown-storm',
                                    repr((rise_start, storm_start)))
                match[rise_idx[rise_start]] = storm_idx[storm_start]
        bad = mm.is_matching(match, edges)
        if bad:
            raise Violation('data-' + bad, repr(match))
        rise_pref = {(r, s_): -abs(rises[r][0] - storms[s_][0])
                     for s_, r in edges}
        blocking_sets = []
        for extra in (0, step):  # elapsed time; the code's sample count
            storm_pref = {
                (s_, r): -abs((storms[s_][1] - storms[s_][0])
                              - (rises[r][1] - rises[r][0] + extra))
                for s_, r in edges}
            blocking_sets.append(set(mm.blocking_pairs(
                match, edges, storm_pref, rise_pref)))
        both = blocking_sets[0] & blocking_sets[1]
        if both:
            raise Violation(
                'data-blocking-pair',
                'stretch {}: storms {} rises {} matching {} blocking {}'
                .format(label, storms, rises, match, sorted(both)))
        if mm.max_degree(edges) >= 2:
            out.add('degree>=2')
            sp = {(s_, r): -abs((storms[s_][1] - storms[s_][0])
                                - (rises[r][1] - rises[r][0]))
                  for s_, r in edges}
            if mm.first_choices_conflict(edges, sp):
                out.add('nontrivial')
            if not mm.has_ties(edges, sp, rise_pref) and (
                    blocking_sets[0] == blocking_sets[1] == set()):
                # storm-optimality under the code's own convention
                sp_code = {
                    (s_, r): -abs((storms[s_][1] - storms[s_][0])
                                  - (rises[r][1] - rises[r][0] + step))
                    for s_, r in edges}
                if not mm.has_ties(edges, sp_code, rise_pref):
                    best_a = mm.storm_optimal(edges, sp, rise_pref)
                    best_b = mm.storm_optimal(edges, sp_code, rise_pref)
                    if match != best_a and match != best_b:
                        raise Violation(
                            'data-not-storm-optimal',
                            'matching {} optimal {} / {}'.format(
                                match, best_a, best_b))
                    out.add('storm-optimal-checked')
    return out


PARTS = [
    Part('fsm_exhaustive_3x3', check_fsm, enumerate=enum_cases,
         shards={'quick': 16, 'thorough': 16},
         exhaustive={'quick': True, 'thorough': True},
         describe='find_stable_matching on every strict instance <= 3x3'),
    Part('fsm_stride_4x3', check_fsm, enumerate=enum_stride,
         shards={'quick': 1, 'thorough': 16},
         describe='seeded stride through 4x3 / 3x4 strict instances '
                  '(thorough tier only)'),
    Part('fsm_random', check_fsm, strategy=lambda tier: random_instances(),
         budget={'quick': 750, 'thorough': 20000},
         describe='find_stable_matching on random graphs <= 6x6, ties'),
    Part('geometric', check_geometric,
         strategy=lambda tier: st.one_of(geometric(), geometric(),
                                         geometric_long()),
         budget={'quick': 250, 'thorough': 5000},
         describe='disambiguate_matching on interval geometry'),
    Part('records', check_records,
         strategy=lambda tier: st.one_of(
             contention_records(), chain_records(),
             gen_records.free_records(allow_gaps=True)),
         budget={'quick': 100, 'thorough': 1500},
         describe='classify on contention-rich records'),
    Part('fsm_fuzz', check_fsm, fuzz_of='fsm_random', fuzz_runs=60000,
         shards={'quick': 0, 'thorough': 4},
         describe='atheris campaign over find_stable_matching instances '
                  '(thorough tier only)'),
]
