"""The environment a case runs in: message verbosity and process time zone.

Neither is an argument of the properties -- which is the point: every listed
property says what the results are a function of, and the number of `-v`
flags, the logging level of the embedding program and the TZ variable of the
process are not on that list.  Every generated case therefore carries an
`ambient` record drawn with it (and shrunk with it: a minimal counter-example
whose ambient is the default says the environment is irrelevant to it):

  verbosity  0-3: `-v` flags given to every sub-command of that case; for
             direct calls of package functions, the level of the root logger
             (ERROR, WARNING, INFO, DEBUG -- user_interface.LEVELS)
  tz         None (the sandbox zone, UTC) or a TZ value for the process: an
             IANA name, or a POSIX rule string that needs no zone files
  path       None, or a flavour of the directory name the dataset and its
             input files live in (a blank, a non-ASCII letter)

The generator consults `CURRENT` (set just before the case itself is drawn,
inside the same composite, so it is a pure function of the draw sequence) to
place records across the daylight-saving transitions of the process zone.
"""

import contextlib
import logging
import os
import time

from hypothesis import strategies as st

RULE_SUFFIX = (
    ' Every case drawn by a strategy (enumerated parts run under the default) also carries an ambient record drawn with it: 0-3 '
    '-v flags on every sub-command (root logger level for direct calls) and a '
    'process TZ (none, Europe/Berlin, a POSIX rule string, America/New_York, '
    'Asia/Jakarta, WIB-7) and the flavour of the scratch directory name (plain, with a blank, with a non-ASCII letter); none may change any result (labels ambient:*). '
    'One more shard of every strategy-driven part (two in the thorough tier) '
    'runs in an interpreter started with -O (label interpreter:-O).'
)
LEVELS = [logging.ERROR, logging.WARNING, logging.INFO, logging.DEBUG]
DEFAULT = {'verbosity': 0, 'tz': None, 'path': None}
CURRENT = dict(DEFAULT)     # during generation: the ambient being drawn for
ACTIVE = dict(DEFAULT)      # during a check: the ambient in force

ZONES = [None, None, None, 'Europe/Berlin', 'CET-1CEST,M3.5.0,M10.5.0/3',
         'America/New_York', 'Asia/Jakarta', 'WIB-7']

# UTC epochs at which the clocks of the process zones above change
# (autumn first: an hour of local time occurs twice)
TRANSITIONS = {
    'Europe/Berlin': [1414285200, 1445734800, 1396141200],
    'CET-1CEST,M3.5.0,M10.5.0/3': [1414285200, 1445734800, 1396141200],
    'America/New_York': [1414908000, 1446357600, 1394348400],
}


def strategy():
    return st.fixed_dictionaries({
        'verbosity': st.sampled_from([0, 0, 0, 1, 2, 3, 3]),
        'tz': st.sampled_from(ZONES),
        # the directory the dataset and its input files live in
        'path': st.sampled_from([None, None, None, 'two words', 'm\u00fcnster']),
    })


def wrap(case_strategy):
    """Strategy of cases carrying their ambient record."""

    @st.composite
    def with_ambient(draw):
        amb = draw(strategy())
        CURRENT.clear()
        CURRENT.update(amb)
        try:
            case = draw(case_strategy)
        finally:
            CURRENT.clear()
            CURRENT.update(DEFAULT)
        if isinstance(case, dict) and 'ambient' not in case:
            case['ambient'] = amb
        return case

    return with_ambient()


@contextlib.contextmanager
def applied(case):
    amb = dict(DEFAULT)
    if isinstance(case, dict):
        amb.update(case.get('ambient') or {})
    saved_tz = os.environ.get('TZ')
    saved_level = logging.root.level
    ACTIVE.clear()
    ACTIVE.update(amb)
    try:
        if amb['tz'] is not None:
            os.environ['TZ'] = amb['tz']
            time.tzset()
        # direct calls of package functions: the embedding program's
        # logging configuration (messages go nowhere)
        for handler in logging.root.handlers[:]:
            logging.root.removeHandler(handler)
        logging.root.addHandler(logging.NullHandler())
        logging.root.setLevel(LEVELS[amb['verbosity']])
        yield amb
    finally:
        ACTIVE.clear()
        ACTIVE.update(DEFAULT)
        logging.root.setLevel(saved_level)
        if amb['tz'] is not None:
            if saved_tz is None:
                os.environ.pop('TZ', None)
            else:
                os.environ['TZ'] = saved_tz
            time.tzset()


def scratch_prefix():
    """Prefix of the scratch directory of the active case (a blank or a
    non-ASCII letter in the path of the dataset and its input files)."""
    flavour = ACTIVE.get('path')
    return 'vfw-{}-'.format(flavour) if flavour else 'vfw-'


def cli_flags():
    """Flags every sub-command of the active case gets."""
    n = ACTIVE['verbosity']
    if not n:
        return []
    return ['-' + 'v' * n, '--logfile', os.devnull]
