"""Rendering of generated records into input files, loading, CLI driving.

A *record case* is a plain dict:

  dt    rainfall step, seconds
  t0    epoch (UTC seconds) of rain index 0
  tz    time zone name the files are written in
  rain  [[index, mm_h], ...]      row at t0 + index*dt
  et    [[index, mm_h], ...]
  wl    [[offset_s, mm], ...]     sample at t0 + offset_s
  (optional) order: {'rain': [...perm...], 'et': [...], 'wl': [...]}
"""

import contextlib
import datetime
import decimal
import io
import os
import shutil
import sqlite3
import tempfile

import pytz

from vfw import tree, ambient
from vfw.core import guarded

FMT = '%Y-%m-%d %H:%M:%S'
UTC = datetime.timezone.utc


def render_time(epoch, tz):
    return datetime.datetime.fromtimestamp(epoch, UTC).astimezone(tz).strftime(
        FMT)


NUMBER_TEXTS = [None, 'int', 'exp', 'EXP', 'plus', 'zeros']


def fmt_value(v, style=None):
    """Decimal text of a value.  The default is repr; the other styles are
    other spellings of the same decimal number, as loggers and spreadsheets
    write them (12 for 12.0, 1.25e+1, 1.25E+1, +12.5, 12.5000).  They are
    only used where the shortest decimal has at most 15 digits, so that every
    spelling denotes one number that SQLite and Python read alike."""
    v = float(v)
    text = repr(v)
    if not style or v != v or v in (float('inf'), float('-inf')):
        return text
    dec = decimal.Decimal(text)
    if len(dec.as_tuple().digits) > 15:
        return text
    if style == 'int':
        return str(int(v)) if v == int(v) and abs(v) < 1e15 else text
    if style == 'exp':
        return '{:e}'.format(dec)
    if style == 'EXP':
        return '{:E}'.format(dec)
    if style == 'plus':
        return '+' + text if v >= 0 and not text.startswith('-') else text
    if style == 'zeros':
        return text + '000' if '.' in text and 'e' not in text else text
    raise ValueError(style)


def render_files(case):
    """Return the three CSV texts (precipitation, evapotranspiration,
    water level) exactly as `spowtd load` expects them."""
    tz = pytz.timezone(case['tz'])
    t0, dt = case['t0'], case['dt']
    order = case.get('order') or {}
    style = case.get('numtext')

    def rows_text(header, rows, perm):
        rows = list(rows)
        if perm:
            rows = [rows[i] for i in perm if i < len(rows)] + [
                r for i, r in enumerate(rows) if i not in set(perm)]
        lines = [case.get('header_prefix', '') + header
                 if case.get('header_prefix') else header]
        for epoch, value in rows:
            lines.append('{},{}'.format(render_time(epoch, tz),
                                        fmt_value(value, style)))
        return '\n'.join(lines) + '\n'

    # (indices may be fractional in malformed-input cases: whole seconds)
    rain = [(int(round(t0 + i * dt)), v) for i, v in case['rain']]
    et = [(int(round(t0 + i * dt)), v) for i, v in case['et']]
    wl = [(int(round(t0 + off)), v) for off, v in case['wl']]
    return {
        'precipitation': rows_text(
            'datetime,precipitation_mm_h', rain, order.get('rain')),
        'evapotranspiration': rows_text(
            'datetime,evapotranspiration_mm_h', et, order.get('et')),
        'water_level': rows_text(
            'datetime,water_level_mm', wl, order.get('wl')),
    }


def scratch_root():
    return '/dev/shm' if os.path.isdir('/dev/shm') else None


@contextlib.contextmanager
def scratch_dir():
    path = tempfile.mkdtemp(prefix=ambient.scratch_prefix(), dir=scratch_root())
    try:
        yield path
    finally:
        shutil.rmtree(path, ignore_errors=True)


def load_memory(case, texts=None):
    """Load a record case into a fresh :memory: database through
    load.load_data; exceptions propagate to the caller."""
    texts = texts or render_files(case)
    connection = sqlite3.connect(':memory:')
    tree.mod('load').load_data(
        connection=connection,
        precipitation_data_file=io.StringIO(texts['precipitation']),
        evapotranspiration_data_file=io.StringIO(
            texts['evapotranspiration']),
        water_level_data_file=io.StringIO(texts['water_level']),
        time_zone_name=case['tz'],
    )
    return connection


def write_files(case, directory, texts=None):
    texts = texts or render_files(case)
    paths = {}
    # files exported from spreadsheets start with a byte-order mark; the CLI
    # opens its inputs as utf-8-sig
    encoding = 'utf-8-sig' if case.get('bom') else 'utf-8'
    for name, text in texts.items():
        paths[name] = os.path.join(directory, name + '.txt')
        with open(paths[name], 'w', encoding=encoding, newline=(
                '\r\n' if case.get('crlf') else '\n')) as f:
            f.write(text)
    return paths


def cli(argv):
    """Run the command-line entry point in-process.  argparse opens files
    itself (FileType); we close what it leaves open by running inside a
    function scope and collecting garbage lazily -- sqlite files are
    closed explicitly by spowtd's own context managers on commit only,
    so connections are short-lived objects freed on return."""
    ui = tree.mod('user_interface')
    argv = [str(a) for a in argv]
    # the verbosity of the case's environment (vfw.ambient): every
    # sub-command takes -v flags right after its name
    argv = argv[:1] + ambient.cli_flags() + argv[1:]
    return ui.main(argv)


def cli_load(case, db_path, directory, texts=None):
    paths = write_files(case, directory, texts)
    return cli([
        'load', db_path, '-p', paths['precipitation'],
        '-e', paths['evapotranspiration'], '-z', paths['water_level'],
        '--timezone', case['tz']])


def fetch(connection, sql, args=()):
    return connection.execute(sql, args).fetchall()
