"""Reference model of classification (never imports spowtd.classify).

Input: the *loaded* tables of a dataset.  Written from the statements of
C01-C04 (DESIGN 3.3), exact arithmetic in Fractions.
"""

from fractions import Fraction as F


def read_loaded(connection):
    """Per data-interval label: samples that have both a rain step and a
    water level, ordered by epoch."""
    (step,) = connection.execute(
        'SELECT time_step_s FROM time_grid').fetchone()
    rows = connection.execute(
        """
        SELECT gt.data_interval, gt.epoch, ri.rainfall_intensity_mm_h,
               wl.zeta_mm
        FROM grid_time AS gt
        JOIN rainfall_intensity AS ri ON ri.from_epoch = gt.epoch
        JOIN water_level AS wl ON wl.epoch = gt.epoch
        WHERE gt.data_interval IS NOT NULL
        ORDER BY gt.epoch""").fetchall()
    stretches = {}
    for label, epoch, rain, zeta in rows:
        stretches.setdefault(label, []).append((epoch, rain, zeta))
    labels = [r[0] for r in connection.execute(
        """SELECT DISTINCT data_interval FROM grid_time
           WHERE data_interval IS NOT NULL ORDER BY data_interval""")]
    return step, labels, stretches


def runs(flags):
    """Maximal runs of True: list of (first, last) index pairs."""
    out = []
    start = None
    for i, f in enumerate(flags):
        if f and start is None:
            start = i
        if not f and start is not None:
            out.append((start, i - 1))
            start = None
    if start is not None:
        out.append((start, len(flags) - 1))
    return out


def classify_stretch(samples, step, s, j, jump_threshold=None,
                     float_increments=False):
    """Model of one gap-free stretch.

    samples: [(epoch, rain, zeta)]; returns a dict with storms, rises,
    candidate edges, flags and interstorm intervals (all by epoch).
    jump_threshold: the increment threshold (Fraction); default is the
    exact product j*step/3600.
    """
    n = len(samples)
    epoch = [e for e, _, _ in samples]
    rain = [F(r) for _, r, _ in samples]
    z = [F(v) for _, _, v in samples]
    thr = F(j) * F(step, 3600) if jump_threshold is None else jump_threshold
    heavy = [r > F(s) for r in rain]
    if float_increments:
        # increments as any double-precision implementation forms them
        inc = [F(float(z[i + 1]) - float(z[i])) for i in range(n - 1)]
    else:
        inc = [z[i + 1] - z[i] for i in range(n - 1)]
    jump = [d > thr for d in inc]
    storm_runs = runs(heavy)
    rise_runs = runs(jump)
    storms = [(epoch[a], epoch[b] + step) for a, b in storm_runs]
    rises = [(epoch[p], epoch[q + 1]) for p, q in rise_runs]
    edges = []
    for si, (a, b) in enumerate(storm_runs):
        for ri, (p, q) in enumerate(rise_runs):
            if max(a, p) <= min(b, q):
                edges.append((si, ri))
    # flags
    is_jump = [False] + jump
    raining = [r > 0 for r in rain]
    mystery = []
    state = True
    for i in range(n):
        if raining[i]:
            state = False
        elif is_jump[i]:
            state = True
        mystery.append(state)
    interstorm = [(not mystery[i]) and (not raining[i]) for i in range(n)]
    inter_runs = [(a, b) for a, b in runs(interstorm) if b > a]
    return {
        'epoch': epoch,
        'storm_runs': storm_runs, 'rise_runs': rise_runs,
        'storms': storms, 'rises': rises, 'edges': edges,
        'flags': {epoch[i]: (int(is_jump[i]), int(mystery[i]),
                            int(interstorm[i])) for i in range(n)},
        'interstorms': [(epoch[a], epoch[b]) for a, b in inter_runs],
        'inc': inc, 'thr': thr,
        'storm_depth': {
            epoch[a]: sum(rain[i] * F(step, 3600) for i in range(a, b + 1))
            for a, b in storm_runs},
    }


def exact_threshold_cases(samples, step, s, j):
    """Does the stretch contain a value exactly at a threshold?"""
    thr = F(j) * F(step, 3600)
    z = [F(v) for _, _, v in samples]
    return (any(F(r) == F(s) for _, r, _ in samples)
            or any(z[i + 1] - z[i] == thr for i in range(len(z) - 1)))


def float_threshold(step, j):
    """The increment threshold as the code computes it in doubles."""
    return F(float(j) * (float(step) / 3600.0))
