"""Shared driver for the classification properties (C01-C04, C07)."""

import os
import sqlite3

from vfw import ambient, dataset, tree, model_classify
from vfw.core import Reject, Violation, guarded, exception_signature


def load_or_reject(case):
    """Load the record (in memory); a refusal by `load` puts the case
    outside the domain of the classification properties."""
    try:
        return dataset.load_memory(case)
    except (ValueError, sqlite3.IntegrityError) as exc:
        raise Reject('load-refused') from exc


def classify_memory(connection, s, j):
    """Run classify on an open connection; returns None or the exception."""
    try:
        tree.mod('classify').classify_intervals(connection, s, j)
    except Exception as exc:  # pylint: disable=broad-except
        connection.rollback()
        return exc
    return None


def classify_cli(case, s, j):
    """load + classify through the command line on a file; returns
    (connection to the resulting file, exception-or-None, scratch dir).
    Caller must close the connection and remove the directory."""
    import shutil
    import tempfile
    directory = tempfile.mkdtemp(prefix=ambient.scratch_prefix(), dir=dataset.scratch_root())
    db = os.path.join(directory, 'data.sqlite3')
    try:
        dataset.cli_load(case, db, directory)
    except (ValueError, sqlite3.IntegrityError) as exc:
        shutil.rmtree(directory, ignore_errors=True)
        raise Reject('load-refused') from exc
    except BaseException:
        shutil.rmtree(directory, ignore_errors=True)
        raise
    error = None
    try:
        dataset.cli(['classify', db, '-s', repr(float(s)),
                     '-j', repr(float(j))])
    except Exception as exc:  # pylint: disable=broad-except
        error = exc
    return sqlite3.connect(db), error, directory


def raise_classify_error(exc, connection=None):
    if (connection is not None and isinstance(exc, ValueError)
            and 'No valid data intervals' in str(exc)):
        labelled = connection.execute(
            'SELECT count(*) FROM grid_time '
            'WHERE data_interval IS NOT NULL').fetchone()[0]
        if labelled == 0:
            # every grid instant lies inside a gap: nothing to classify;
            # the explicit refusal is C01's concern (DESIGN 6, O3)
            raise Reject('nothing-to-classify')
    sig = exception_signature(exc)
    if sig is None:
        raise exc
    raise Violation(sig, repr(exc)) from exc


def tables(connection):
    f = lambda sql: connection.execute(sql).fetchall()  # noqa: E731
    return {
        'storm': f('SELECT start_epoch, thru_epoch FROM storm '
                   'ORDER BY start_epoch'),
        'zeta_interval': f(
            'SELECT start_epoch, interval_type, thru_epoch '
            'FROM zeta_interval ORDER BY start_epoch'),
        'pairs': f('SELECT interval_start_epoch, storm_start_epoch '
                   'FROM zeta_interval_storm ORDER BY interval_start_epoch'),
        'flags': f('SELECT start_epoch, is_jump, is_mystery_jump, '
                   'is_interstorm FROM grid_time_flags ORDER BY start_epoch'),
        'thresholds': f('SELECT storm_rain_threshold_mm_h, '
                        'rising_jump_threshold_mm_h FROM thresholds'),
    }


def model_of(connection, s, j):
    """Model of every stretch: (step, {label: model dict}, stretches)."""
    step, labels, stretches = model_classify.read_loaded(connection)
    models = {}
    for label in labels:
        samples = stretches.get(label, [])
        if samples:
            models[label] = model_classify.classify_stretch(
                samples, step, s, j)
    return step, labels, stretches, models


def threshold_is_exact(step, j):
    """Does the double product j*(step/3600.) equal the exact product?"""
    from fractions import Fraction as F
    return model_classify.float_threshold(step, j) == F(j) * F(step, 3600)


def record_labels(case, labels, stretches, models):
    """Generator-class labels shared by the classification checks."""
    out = {case.get('gen', 'gen?')}
    if len([l for l in labels if stretches.get(l)]) >= 2:
        out.add('>=2-data-intervals')
    if any(len(stretches.get(l, [])) < 2 for l in labels):
        out.add('stretch<2-samples')
    contention = False
    edge_run = False
    for m in models.values():
        deg_s, deg_r = {}, {}
        for si, ri in m['edges']:
            deg_s[si] = deg_s.get(si, 0) + 1
            deg_r[ri] = deg_r.get(ri, 0) + 1
        if any(v > 1 for v in deg_s.values()) or any(
                v > 1 for v in deg_r.values()):
            contention = True
        n = len(m['epoch'])
        for a, b in m['storm_runs']:
            if a == 0 or b == n - 1:
                edge_run = True
        for p, q in m['rise_runs']:
            if p == 0 or q == n - 2:
                edge_run = True
    if contention:
        out.add('contention')
    if edge_run:
        out.add('run-touches-stretch-end')
    return out
