"""The command-line workflow on files, one sub-command per call."""

import os
import shutil
import sqlite3
import tempfile

from vfw import dataset, ambient


class Workflow:
    """Scratch directory + dataset file; every step goes through
    user_interface.main exactly as the `spowtd` script does."""

    def __init__(self, case):
        self.case = case
        self.directory = tempfile.mkdtemp(
            prefix=ambient.scratch_prefix(), dir=dataset.scratch_root())
        self.db = os.path.join(self.directory, 'data.sqlite3')

    def __enter__(self):
        return self

    def __exit__(self, *exc):
        self.close()

    def close(self):
        shutil.rmtree(self.directory, ignore_errors=True)

    def path(self, name):
        return os.path.join(self.directory, name)

    def load(self):
        return dataset.cli_load(self.case, self.db, self.directory)

    def classify(self, s=None, j=None):
        s = self.case['s'] if s is None else s
        j = self.case['j'] if j is None else j
        return dataset.cli(['classify', self.db, '-s', repr(float(s)),
                            '-j', repr(float(j))])

    def zeta_grid(self, step_text):
        return dataset.cli(['set-zeta-grid', self.db, '-d', str(step_text)])

    def rise(self, reference_text=None):
        argv = ['rise', self.db]
        if reference_text is not None:
            # '--opt=value' keeps argparse from reading '-37.9' as a flag
            argv.append('--reference-zeta-mm={}'.format(reference_text))
        return dataset.cli(argv)

    def recession(self, reference_text=None):
        argv = ['recession', self.db]
        if reference_text is not None:
            argv.append('--reference-zeta-mm={}'.format(reference_text))
        return dataset.cli(argv)

    def set_curvature(self, value_text):
        return dataset.cli(['set-curvature', self.db, str(value_text)])

    def simulate(self, what, parameters_path, observations=False):
        out = self.path('sim-{}-{}.yml'.format(what, int(observations)))
        argv = ['simulate', what, self.db, parameters_path, '-o', out]
        if observations:
            argv.append('--observations')
        dataset.cli(argv)
        _close_leaked_files()
        with open(out) as f:
            return f.read()

    def pestfiles(self, what, parameters_path, kind):
        out = self.path('pest-{}.{}'.format(what, kind))
        dataset.cli(['pestfiles', what, self.db, parameters_path, kind,
                     '-o', out])
        _close_leaked_files()
        with open(out, newline='') as f:
            return f.read()

    def connect(self):
        return sqlite3.connect(self.db)

    def copy_db(self, name):
        target = self.path(name)
        shutil.copyfile(self.db, target)
        return target


def _close_leaked_files():
    """argparse.FileType leaves output files open (and unflushed) until
    they are garbage collected; CPython frees them when main() returns,
    a collection makes that independent of reference cycles."""
    import gc
    gc.collect()
