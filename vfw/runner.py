"""Runner: tiers, seeds, shards, evidence, exit codes.

Usage (through /verif/check):
    check <ID> [--tier quick|thorough] [--replay FILE] [--part NAME]

Exit codes: 0 held on everything explored; 1 VIOLATION; 2 harness error.
"""

import argparse
import collections
import glob
import importlib
import json
import multiprocessing
import os
import sys
import time
import traceback

from vfw import ambient
from vfw.core import (
    VERIF_DIR,
    REPO_DIR,
    Violation,
    Reject,
    HarnessError,
    case_hash,
    canonical,
)

MAX_SAMPLES = 4
SCRATCH_TREE = os.path.realpath(REPO_DIR) != '/repo'
CORES = int(os.environ.get('VERIF_CORES') or 16)


def load_findings():
    path = os.path.join(VERIF_DIR, 'known_findings.json')
    if not os.path.exists(path):
        return []
    with open(path) as f:
        return json.load(f)['findings']


def known_map(pid):
    """signature -> entry, for entries of this property with status known."""
    return {
        e['signature']: e
        for e in load_findings()
        if e['property'] == pid and e.get('status') == 'known'
    }


class ShardStats:
    """Counters of one shard (picklable as a dict)."""

    def __init__(self):
        self.evaluations = 0
        self.rejected = collections.Counter()
        self.labels = collections.Counter()
        self.nontrivial = set()
        self.excluded_known = collections.Counter()
        self.samples = []
        self.plain_samples = []
        self.violation = None
        self.harness_error = None
        self.frozen = False
        self.violation_size = None
        self.shrink_started = None
        self.shrink_budget_s = 20.0

    def as_dict(self):
        return {
            'evaluations': self.evaluations,
            'rejected': dict(self.rejected),
            'labels': dict(self.labels),
            'nontrivial': sorted(self.nontrivial),
            'excluded_known': dict(self.excluded_known),
            'samples': self.samples or self.plain_samples,
            'violation': self.violation,
            'harness_error': self.harness_error,
        }


class _Failure(Exception):
    """Raised inside the hypothesis test for an unlisted violation."""


class _Harness(Exception):
    """Raised inside the hypothesis test for a harness error."""


def run_case(part, case, stats, known):
    """Run one case through the oracle, maintaining counters.

    Returns normally when the property held or the case hit a *known*
    finding; raises _Failure for anything else."""
    if stats.frozen and (
            time.time() - stats.shrink_started > stats.shrink_budget_s):
        # shrink budget used up: stop evaluating, let Hypothesis wind down
        return 'skipped'
    try:
        with ambient.applied(case) as amb:
            labels = part.check(case)
        labels = set(labels or ())
        if amb['verbosity']:
            labels.add('ambient:-' + 'v' * amb['verbosity'])
        if amb['tz']:
            labels.add('ambient:process-TZ-set')
        if amb.get('path'):
            labels.add('ambient:odd-directory-name')
        if sys.flags.optimize:
            labels.add('interpreter:-O')
    except Reject as rej:
        if not stats.frozen:
            stats.rejected[rej.why] += 1
        return 'rejected'
    except Violation as vio:
        if vio.signature in known:
            if not stats.frozen:
                stats.evaluations += 1
                stats.excluded_known[vio.signature] += 1
            return 'known'
        if not stats.frozen:
            stats.frozen = True
            stats.shrink_started = time.time()
        size = len(canonical(case))
        if stats.violation is None or size <= stats.violation_size:
            # keep the smallest failing case seen (Hypothesis shrinks
            # towards it; we do not depend on its final replay)
            stats.violation_size = size
            stats.violation = {
                'part': part.name,
                'signature': vio.signature,
                'detail': vio.detail[:2000],
                'case': case,
            }
        raise _Failure(vio.signature) from vio
    except HarnessError as err:
        stats.frozen = True
        stats.harness_error = str(err)
        raise _Harness(str(err)) from err
    except Exception as err:  # pylint: disable=broad-except
        stats.frozen = True
        stats.harness_error = traceback.format_exc()
        raise _Harness(repr(err)) from err
    if not stats.frozen:
        stats.evaluations += 1
        for label in labels:
            stats.labels[label] += 1
        if 'nontrivial' in labels:
            digest = case_hash(case)
            if digest not in stats.nontrivial:
                stats.nontrivial.add(digest)
                if len(stats.samples) < MAX_SAMPLES:
                    stats.samples.append(case)
        elif len(stats.plain_samples) < 1:
            stats.plain_samples.append(case)
    return 'ok'


def shard_task(args):
    """Run one (part, shard) in a worker process.  mode 'optimized': the
    shard runs in a child interpreter started with -O (assert statements
    compiled away - an interpreter option, not an input of any property)."""
    (pid, part_name, tier, seed, shard, nshards, mode) = args
    if mode == 'optimized' and not sys.flags.optimize:
        return optimized_shard(args)
    stats = ShardStats()
    try:
        module = importlib.import_module('vfw.props.' + pid)
        part = next(p for p in module.PARTS if p.name == part_name)
        known = known_map(pid)
        if part.fuzz_of is not None:
            return (part_name, shard, run_fuzz(pid, part, seed, shard))
        if part.enumerate is not None:
            try:
                for case in part.enumerate(tier, shard, nshards):
                    run_case(part, case, stats, known)
            except (_Failure, _Harness):
                pass
        else:
            _run_hypothesis(part, tier, seed, shard, stats, known)
    except Exception:  # pylint: disable=broad-except
        stats.harness_error = traceback.format_exc()
    return (part_name, shard, stats.as_dict())


def optimized_shard(args):
    import subprocess
    (pid, part_name, _tier, _seed, shard, _n, _mode) = args
    stats = ShardStats()
    try:
        proc = subprocess.run(
            [sys.executable, '-O', '-m', 'vfw.runner', pid, '--shard-json',
             json.dumps(list(args))],
            capture_output=True, text=True, cwd=VERIF_DIR, check=False,
            # (string hashing, hence the order of sets and dicts of strings,
            # differs from the main run; fixed by the seed)
            env=dict(os.environ, PYTHONHASHSEED=str(1 + args[3] % 4000)))
        lines = [l for l in proc.stdout.splitlines()
                 if l.startswith('SHARD-RESULT ')]
        if not lines:
            stats.harness_error = 'optimized shard gave no result: ' + (
                proc.stderr[-1500:] or proc.stdout[-500:])
            return (part_name, shard, stats.as_dict())
        name, number, result = json.loads(lines[-1][len('SHARD-RESULT '):])
        if result.get('violation'):
            result['violation']['interpreter'] = '-O'
        return (name, number, result)
    except Exception:  # pylint: disable=broad-except
        stats.harness_error = traceback.format_exc()
        return (part_name, shard, stats.as_dict())


def run_fuzz(pid, part, seed, shard):
    """atheris campaign in a subprocess (fresh corpus, removed afterwards);
    returns the statistics dict the driver wrote."""
    import shutil
    import subprocess
    import tempfile
    empty = ShardStats().as_dict()
    if not os.path.isdir(os.path.join(VERIF_DIR, '.deps', 'atheris')):
        subprocess.call(['sh', os.path.join(VERIF_DIR, 'setup.sh')],
                        stdout=subprocess.DEVNULL, stderr=subprocess.DEVNULL)
    if not os.path.isdir(os.path.join(VERIF_DIR, '.deps', 'atheris')):
        empty['labels'] = {'atheris-unavailable': 1}
        return empty
    scratch = tempfile.mkdtemp(
        prefix='vfw-fuzz-',
        dir='/dev/shm' if os.path.isdir('/dev/shm') else None)
    stats_path = os.path.join(scratch, 'stats.json')
    try:
        subprocess.run(
            [sys.executable,
             os.path.join(VERIF_DIR, 'vfw', 'fuzz_driver.py'), pid,
             part.fuzz_of, stats_path, str(part.fuzz_runs),
             str(seed * 1000 + shard + 1), os.path.join(scratch, 'corpus')],
            stdout=subprocess.DEVNULL, stderr=subprocess.DEVNULL,
            env=dict(os.environ, PYTHONHASHSEED='0'), check=False)
        if os.path.exists(stats_path):
            with open(stats_path) as f:
                result = json.load(f)
            if result.get('violation'):
                result['violation']['part'] = part.fuzz_of
            return result
        empty['harness_error'] = 'fuzz driver wrote no statistics'
        return empty
    finally:
        shutil.rmtree(scratch, ignore_errors=True)


def _run_hypothesis(part, tier, seed, shard, stats, known):
    import hypothesis
    from hypothesis import HealthCheck, Phase, given, settings

    n_examples = part.budget[tier]
    strategy = ambient.wrap(part.strategy(tier))

    @hypothesis.seed(seed * 1000 + shard)
    @settings(
        max_examples=n_examples,
        database=None,
        deadline=None,
        derandomize=False,
        report_multiple_bugs=False,
        suppress_health_check=list(HealthCheck),
        phases=[Phase.generate, Phase.shrink],
        print_blob=False,
    )
    @given(strategy)
    def test(case):
        outcome = run_case(part, case, stats, known)
        if outcome == 'rejected':
            hypothesis.reject()

    stats.shrink_budget_s = 20.0 if tier == 'quick' else 120.0
    try:
        test()
    except (_Failure, _Harness):
        pass
    except hypothesis.errors.Unsatisfiable:
        stats.harness_error = 'generator unsatisfiable (too many rejects)'
    except Exception:  # pylint: disable=broad-except
        # e.g. Flaky, raised because evaluation stops once the shrink
        # budget is used up; the recorded failing case is what counts
        if stats.violation is None and stats.harness_error is None:
            stats.harness_error = traceback.format_exc()


def replay_file(pid, path, known):
    """Replay one saved case; returns (status, info)."""
    module = importlib.import_module('vfw.props.' + pid)
    with open(path) as f:
        record = json.load(f)
    if record.get('interpreter') == '-O' and not sys.flags.optimize:
        # found in an interpreter started with -O: replay it there
        import subprocess
        proc = subprocess.run(
            [sys.executable, '-O', '-m', 'vfw.runner', pid, '--replay', path],
            capture_output=True, text=True, cwd=VERIF_DIR, check=False)
        first = (proc.stdout.splitlines() or [''])[0]
        if proc.returncode == 1:
            return ('violation', first.split(': violation ', 1)[-1])
        if ': rejected' in first:
            return ('rejected', '')
        if proc.returncode != 0:
            raise HarnessError('replay under -O failed: ' + proc.stderr[-800:])
        return ('ok', '')
    part = next(p for p in module.PARTS if p.name == record['part'])
    try:
        with ambient.applied(record['case']):
            part.check(record['case'])
    except Reject as rej:
        return ('rejected', rej.why)
    except Violation as vio:
        if vio.signature in known:
            return ('known', vio.signature)
        return ('violation', '{}: {}'.format(vio.signature, vio.detail))
    return ('ok', '')


def write_replay(pid, violation):
    directory = os.path.join(VERIF_DIR, 'replays', pid)
    if SCRATCH_TREE:
        # a scratch worktree is under test (mutation trials): keep its
        # counter-examples out of the committed regression tier
        directory = os.path.join(
            os.environ.get('VERIF_SCRATCH_OUT', '/dev/shm/vfw-scratch'),
            'replays', pid)
    os.makedirs(directory, exist_ok=True)
    digest = case_hash(violation['case'])[:12]
    path = os.path.join(
        directory, 'found-{}-{}.json'.format(violation['part'], digest)
    )
    with open(path, 'w') as f:
        json.dump(violation, f, indent=1, sort_keys=True)
        f.write('\n')
    return path


def main(argv=None):
    parser = argparse.ArgumentParser()
    parser.add_argument('property_id')
    parser.add_argument(
        '--tier', default=os.environ.get('VERIF_TIER') or 'quick'
    )
    parser.add_argument('--replay')
    parser.add_argument('--part', action='append')
    parser.add_argument('--no-evidence', action='store_true')
    parser.add_argument('--shard-json')
    args = parser.parse_args(argv)
    pid = args.property_id
    if args.shard_json:
        result = shard_task(tuple(json.loads(args.shard_json)))
        print('SHARD-RESULT ' + json.dumps(result))
        return 0
    tier = args.tier if args.tier in ('quick', 'thorough') else 'quick'
    try:
        seed = int(os.environ.get('VERIF_SEED') or '1')
    except ValueError:
        seed = 1
    started = time.time()
    try:
        module = importlib.import_module('vfw.props.' + pid)
    except Exception:  # pylint: disable=broad-except
        traceback.print_exc()
        print('HARNESS-ERROR property={} cannot import check'.format(pid))
        return 2
    known = known_map(pid)

    if args.replay:
        status, info = replay_file(pid, args.replay, known)
        print('replay {}: {} {}'.format(args.replay, status, info))
        if status == 'violation':
            print('VIOLATION property={} replay={}'.format(pid, args.replay))
            return 1
        if status == 'known':
            print('KNOWN-FINDING: property={} {}'.format(
                pid, known[info]['what']))
        return 0

    violations = []
    known_hits = collections.Counter()
    harness_errors = []

    # 1. regression tier: saved counter-examples first
    replayed = 0
    for path in sorted(glob.glob(
            os.path.join(VERIF_DIR, 'replays', pid, '*.json'))):
        try:
            status, info = replay_file(pid, path, known)
        except Exception:  # pylint: disable=broad-except
            harness_errors.append('replay {}: {}'.format(
                path, traceback.format_exc()))
            continue
        replayed += 1
        if status == 'violation':
            violations.append((path, info))
        elif status == 'known':
            known_hits[info] += 1

    # 2. generated search
    parts = [
        p for p in module.PARTS if not args.part or p.name in args.part
    ]
    tasks = []
    for part in parts:
        nshards = part.shards[tier]
        for shard in range(nshards):
            tasks.append((pid, part.name, tier, seed, shard, nshards,
                          'plain'))
        if (part.strategy is not None and part.fuzz_of is None
                and part.enumerate is None and nshards):
            # the same search once more (twice in the thorough tier) with
            # other seeds in an interpreter started with -O
            for extra in range(1 if tier == 'quick' else 2):
                tasks.append((pid, part.name, tier, seed, nshards + extra,
                              nshards, 'optimized'))
    results = []
    if tasks:
        workers = min(CORES, len(tasks))
        if workers == 1:
            results = [shard_task(tasks[0])]
        else:
            context = multiprocessing.get_context('fork')
            with context.Pool(workers, maxtasksperchild=1) as pool:
                results = pool.map(shard_task, tasks, chunksize=1)

    per_part = collections.OrderedDict()
    for part in parts:
        per_part[part.name] = {
            'evaluations': 0,
            'distinct_nontrivial': set(),
            'labels': collections.Counter(),
            'rejected': collections.Counter(),
            'excluded_known': collections.Counter(),
            'samples': [],
            'exhaustive': bool(part.exhaustive.get(tier)),
            'describe': part.describe,
        }
    for part_name, shard, res in results:
        agg = per_part[part_name]
        agg['evaluations'] += res['evaluations']
        agg['distinct_nontrivial'].update(res['nontrivial'])
        agg['labels'].update(res['labels'])
        agg['rejected'].update(res['rejected'])
        agg['excluded_known'].update(res['excluded_known'])
        for sample in res['samples']:
            if len(agg['samples']) < MAX_SAMPLES:
                agg['samples'].append(sample)
        for sig, count in res['excluded_known'].items():
            known_hits[sig] += count
        if res['harness_error']:
            harness_errors.append('{} shard {}: {}'.format(
                part_name, shard, res['harness_error']))
        if res['violation']:
            path = write_replay(pid, res['violation'])
            violations.append((path, res['violation']['signature']))

    wall = time.time() - started
    evaluations = sum(a['evaluations'] for a in per_part.values())
    distinct = sum(len(a['distinct_nontrivial']) for a in per_part.values())
    samples = []
    for name, agg in per_part.items():
        for sample in agg['samples'][:2]:
            samples.append({'part': name, 'case': sample})
    if not samples:
        samples = [{'note': 'no case was evaluated'}]
    coverage = {
        'evaluations': evaluations,
        'distinct_nontrivial': distinct,
        'rule': module.RULE + ambient.RULE_SUFFIX,
        'samples': samples,
        'exhaustive': bool(per_part) and all(
            a['exhaustive'] for a in per_part.values()),
        'replayed_saved_cases': replayed,
        'excluded_known': dict(known_hits),
        'parts': {
            name: {
                'evaluations': a['evaluations'],
                'distinct_nontrivial': len(a['distinct_nontrivial']),
                'labels': dict(sorted(a['labels'].items())),
                'rejected': dict(a['rejected']),
                'excluded_known': dict(a['excluded_known']),
                'exhaustive_subdomain': a['exhaustive'],
                'describe': a['describe'],
            }
            for name, a in per_part.items()
        },
    }
    evidence = {
        'property_id': pid,
        'tier': tier,
        'seed': seed,
        'level': module.LEVEL,
        'coverage': coverage,
        'assumptions': list(getattr(module, 'ASSUMPTIONS', [])),
        'wall_s': round(wall, 3),
        'violations': len(violations),
        'repo': REPO_DIR,
    }
    if not args.no_evidence and not args.part and not SCRATCH_TREE:
        os.makedirs(os.path.join(VERIF_DIR, 'evidence'), exist_ok=True)
        with open(os.path.join(
                VERIF_DIR, 'evidence', pid + '.json'), 'w') as f:
            json.dump(evidence, f, indent=1, sort_keys=True)
            f.write('\n')

    for name, a in per_part.items():
        print('{} {}: evaluations={} nontrivial={} rejected={} '
              'known={}'.format(
                  pid, name, a['evaluations'],
                  len(a['distinct_nontrivial']),
                  sum(a['rejected'].values()),
                  sum(a['excluded_known'].values())))
        if os.environ.get('VERIF_VERBOSE'):
            print('   labels', dict(sorted(a['labels'].items())))
            print('   rejected', dict(a['rejected']))
    for sig in sorted(known_hits):
        print('KNOWN-FINDING: property={} {} [{} cases, signature {}]'.format(
            pid, known[sig]['what'], known_hits[sig], sig))
    print('{} tier={} seed={} wall={:.1f}s'.format(pid, tier, seed, wall))
    if harness_errors:
        for err in harness_errors[:3]:
            print('HARNESS-ERROR property={} {}'.format(pid, err))
        if not violations:
            return 2
    if violations:
        seen = set()
        for path, info in violations:
            if path in seen:
                continue
            seen.add(path)
            print('violation: {}'.format(info))
            print('VIOLATION property={} replay={}'.format(pid, path))
        return 1
    if evaluations == 0:
        print('HARNESS-ERROR property={} nothing was evaluated'.format(pid))
        return 2
    return 0


if __name__ == '__main__':
    sys.exit(main())
