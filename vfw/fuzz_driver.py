#!/venv/bin/python
"""Coverage-guided campaign over an existing part (DESIGN 5).

    fuzz_driver.py <ID> <part> <stats.json> <runs> <seed> <corpus dir>

atheris/libFuzzer drives the SAME Hypothesis strategy and the SAME oracle as
the property-based run (`test.hypothesis.fuzz_one_input`), with coverage
feedback from the instrumented spowtd modules.  Known findings are excluded
inside the target, so a campaign does not die on the first known crash.
Statistics are written to <stats.json> every 200 evaluations and at the
end (atexit does not run under libFuzzer).
"""

import json
import os
import sys

HERE = os.path.dirname(os.path.dirname(os.path.abspath(__file__)))
sys.path[:0] = [os.environ.get('SPOWTD_REPO', '/repo'), HERE,
                os.path.join(HERE, '.deps')]
sys.dont_write_bytecode = True


def main():
    pid, part_name, stats_path, runs, seed, corpus = sys.argv[1:7]
    import atheris
    with atheris.instrument_imports(include=['spowtd']):
        import spowtd.classify  # noqa: F401
        import spowtd.regrid  # noqa: F401
        import spowtd.fit_offsets  # noqa: F401
        import spowtd.load  # noqa: F401
    import importlib
    from hypothesis import HealthCheck, given, settings
    from vfw import runner, ambient

    module = importlib.import_module('vfw.props.' + pid)
    part = next(p for p in module.PARTS if p.name == part_name)
    known = runner.known_map(pid)
    stats = runner.ShardStats()
    stats.shrink_budget_s = 0.0

    def dump():
        with open(stats_path + '.tmp', 'w') as f:
            json.dump(stats.as_dict(), f)
        os.replace(stats_path + '.tmp', stats_path)

    @settings(database=None, deadline=None,
              suppress_health_check=list(HealthCheck))
    @given(ambient.wrap(part.strategy('thorough')))
    def test(case):
        runner.run_case(part, case, stats, known)
        if stats.evaluations % 200 == 0:
            dump()

    def one_input(data):
        try:
            test.hypothesis.fuzz_one_input(data)
        except (runner._Failure, runner._Harness):
            dump()
            sys.stdout.flush()
            os._exit(0)

    os.makedirs(corpus, exist_ok=True)
    argv = [sys.argv[0], '-runs={}'.format(runs), '-seed={}'.format(seed),
            '-max_len=4096', '-print_final_stats=0', '-verbosity=0', corpus]
    atheris.Setup(argv, one_input)
    dump()
    try:
        atheris.Fuzz()
    finally:
        dump()


if __name__ == '__main__':
    main()
