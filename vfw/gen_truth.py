"""G-truth: records generated from a planted ground truth (DESIGN 3.2).

Truth: a strictly decreasing recession curve r[0] > r[1] > ... defined on
the sampling lattice (a dry spell walks one index per time step, so linear
interpolation of the samples reproduces the curve exactly) and a constant
specific yield Sy.  Events alternate dry spells with storms that lift the
level from r[m] to r[m'], m' < m: heavy steps whose increments all exceed
the jump threshold and whose intensities Sy*increment/step exceed the storm
threshold, followed by one drizzle step carrying the last 1/8 mm (the
sample ending a jump must still be rainy).  Everything is constructed.
"""

from fractions import Fraction as F

from hypothesis import strategies as st

from vfw import gen_records

SY = [0.125, 0.25, 0.5, 1.0]


def _exact_step(dt):
    """The planted truth is exact only where one lattice unit of rain per
    step survives the trip through an intensity in mm/h: (u*3600/dt)*dt/3600
    == u in double arithmetic for every lattice depth used (true of every
    whole-minute step of the list and of 90 s; not of 115 s or 229 s)."""
    return all((u / 8.0 * 3600.0 / dt) * dt / 3600.0 == u / 8.0
               and (u / 8.0 * 3600.0 / dt) * (dt / 3600.0) == u / 8.0
               for u in range(1, 65))


TRUTH_STEPS = [dt for dt in gen_records.STEPS if _exact_step(dt)]
DYADIC_GRID = [1.0, 0.5, 0.25, 2.0]
DECIMAL_GRID = [0.1, 0.2, 0.3, 0.7, 2.5, 5.0]


@st.composite
def truth_records(draw, min_storms=4, max_storms=10, noise=False,
                  dts=None, curve_len=None, et_varying=True, fixed=None,
                  top_range=(-200, 800), gaps=False):
    fixed = fixed or {}
    dt = fixed.get('dt') or draw(st.sampled_from(dts or TRUTH_STEPS))
    tz = fixed.get('tz') or draw(st.sampled_from(gen_records.ZONES))
    t0 = fixed.get('t0') or gen_records.draw_t0(draw, dt, span=150)
    sy = fixed.get('sy') or draw(st.sampled_from(SY))
    thr_units = fixed.get('thr_units') or draw(
        st.sampled_from([1, 2, 3, 4, 8]))
    k_s = fixed.get('k_s') or draw(st.sampled_from([1, 2, 4]))
    # drizzle intensity carrying one lattice unit (1/8 mm) in one step
    drizzle = sy * 3600.0 / (8.0 * dt)
    s = k_s * drizzle
    j = (thr_units / 8.0) * 3600.0 / dt
    min_heavy = max(k_s, thr_units) + 1
    M = curve_len or draw(st.integers(40, 90))
    dec_max = draw(st.sampled_from([8, 16, 24, 40]))
    decs = [draw(st.integers(2 if noise else 1, dec_max)) for _ in range(M)]
    top = draw(st.integers(*top_range))
    r = [top]
    for d in decs:
        r.append(r[-1] - d)
    n_storms = draw(st.integers(min_storms, max_storms))
    rain, z = [], []
    m = draw(st.integers(M // 3, M - 4))
    z.append(r[m])
    flat_spells = []
    intervals = []   # truth recessions (first_sample, last_sample, m_start)
    rises = []       # truth rises (first_sample, last_sample, depth Fraction)

    def dry(k, m):
        start = len(z) - 1
        for _ in range(k):
            rain.append(0.0)
            m += 1
            z.append(r[m])
        return start, m

    lead = draw(st.integers(0, 3))
    lead = min(lead, M - m - 1)
    _, m = dry(lead, m)
    for _ in range(n_storms):
        if m < 1:
            break
        lift_to = draw(st.integers(max(0, m - 16), m - 1))
        # climb from r[m] to r[lift_to] - 1 unit in heavy steps, then drizzle
        total = r[lift_to] - 1 - r[m]
        if total < min_heavy:
            lift_to = max(0, lift_to - 1)
            total = r[lift_to] - 1 - r[m]
            while total < min_heavy and lift_to > 0:
                lift_to -= 1
                total = r[lift_to] - 1 - r[m]
        if total < min_heavy:
            break
        max_steps = max(1, min(4, total // min_heavy))
        k = draw(st.integers(1, max_steps))
        parts = [min_heavy] * k
        spare = total - min_heavy * k
        for idx in range(k - 1):
            give = draw(st.integers(0, spare))
            parts[idx] += give
            spare -= give
        parts[-1] += spare
        first = len(z) - 1
        depth = F(0)
        for n_units in parts:
            rain.append(n_units * drizzle)
            depth += F(n_units * drizzle) * F(dt, 3600)
            z.append(z[-1] + n_units)
        rises.append([first, len(z) - 1, float(depth)])
        rain.append(drizzle)
        z.append(z[-1] + 1)
        m = lift_to
        assert z[-1] == r[m]
        k_dry = draw(st.integers(3, 14))
        k_dry = min(k_dry, M - m)
        if k_dry < 1:
            break
        if noise and draw(st.integers(0, 6)) == 0:
            # a plateau: the level does not move during this dry spell (a
            # legitimate record - logger resolution, ponding); only used
            # where the planted curve itself is not the oracle
            start = len(z) - 1
            for _ in range(k_dry):
                rain.append(0.0)
                z.append(z[-1])
            m2 = m
            flat_spells.append(start)
        else:
            start, m2 = dry(k_dry, m)
        # interstorm samples: the first dry sample .. the last dry sample
        intervals.append([start, len(z) - 1 - 1, m])
        m = m2
        if m >= M - 1:
            break
    while len(rain) < 3:
        # (no storm fitted under the curve: still a loadable record)
        if m < M:
            _, m = dry(1, m)
        else:
            rain.append(0.0)
            z.append(z[-1])
    # the last dry step's end sample is also dry only if another dry step
    # follows; append one closing dry step so the interval's end is plain
    # (rain list has one entry per step; z has one more sample)
    if noise:
        # perturb interior recession samples by +-1 unit (never the first
        # and last sample of a spell, never producing a jump)
        for start, last, _ in intervals:
            if start in flat_spells:
                continue
            for i in range(start + 1, last):
                z[i] += draw(st.sampled_from([0, 0, 1, -1]))
    et_vals = ([draw(st.integers(0, 32)) / 64.0 for _ in range(7)]
               if et_varying else [0.125])
    removed = set()
    if gaps and draw(st.integers(0, 2)) == 0:
        # the logger skips one or two readings inside a dry spell: the record
        # splits into two gap-free stretches, the truth is untouched
        long_spells = [(a, b) for a, b, _ in intervals if b - a >= 4]
        if long_spells:
            a, b = draw(st.sampled_from(long_spells))
            first = draw(st.integers(a + 1, b - 2))
            removed = set(range(first, first + draw(st.integers(1, 2))))
    extra = {'gen': 'truth', 'thr_units': thr_units}
    if gaps and dt % 2 == 0 and draw(st.integers(0, 2)) == 0:
        # a logger twice as dense as the rain grid (the readings between
        # grid times lie on the straight line, so the truth is untouched);
        # a skipped on-grid reading then leaves a hole of one rain step
        extra.update({'fine_removed': [], 'fine_keep_mids': True})
    case = gen_records.assemble(
        dt, t0, tz, rain, z, 0, [], [], removed, et_vals, s, j, extra)
    case['truth'] = {'r_units': r, 'sy': sy, 'recessions': intervals,
                     'rises': rises, 'noise': bool(noise), 'k_s': k_s}
    return case


def truth_levels(case):
    """Level (mm) of every sample, as exact Fractions."""
    return [F(v) for _, v in case['wl']]


@st.composite
def far_group_records(draw, noise=True):
    """A main planted record followed, after a gap in the water-level
    record, by a smaller planted record in a level band far above: its
    intervals share no water level with the main body, directly or through
    a chain of overlaps (the level moved while the logger was off)."""
    main = draw(truth_records(noise=noise, min_storms=5, max_storms=9))
    fixed = {'dt': main['dt'], 'tz': main['tz'], 't0': main['t0'],
             'sy': main['truth']['sy'], 'thr_units': main['thr_units'],
             'k_s': main['truth']['k_s']}
    far = draw(truth_records(noise=noise, min_storms=1, max_storms=3,
                             curve_len=24, fixed=fixed,
                             top_range=(6000, 8000)))
    gap = draw(st.integers(2, 5))
    dt = main['dt']
    n_main = max(i for i, _ in main['rain']) + 1
    shift = n_main + gap
    rain = list(main['rain']) + [[n_main + i, 0.0] for i in range(gap)] + [
        [i + shift, v] for i, v in far['rain']]
    wl = list(main['wl']) + [[off + shift * dt, v] for off, v in far['wl']]
    lo = -2
    hi = max(i for i, _ in rain) + 4
    et_vals = [v for _, v in main['et']][:7] or [0.125]
    et = [[i, et_vals[(i - lo) % len(et_vals)]] for i in range(lo, hi)]
    case = dict(main)
    case.update({'rain': rain, 'wl': wl, 'et': et, 'gen': 'truth-far',
                 'far_first_sample_s': shift * dt})
    if draw(st.booleans()):
        # the far band first: the main body is not the first component
        # met in time order
        n_far = max(i for i, _ in far['rain']) + 1
        shift = n_far + gap
        rain = list(far['rain']) + [[n_far + i, 0.0] for i in range(gap)] + [
            [i + shift, v] for i, v in main['rain']]
        wl = list(far['wl']) + [[off + shift * dt, v]
                                for off, v in main['wl']]
        hi = max(i for i, _ in rain) + 4
        et = [[i, et_vals[(i - lo) % len(et_vals)]] for i in range(lo, hi)]
        case.update({'rain': rain, 'wl': wl, 'et': et,
                     'far_first_sample_s': 0})
    return case
