"""Exact level-crossing model (Fractions; never imports spowtd).

For a series (x, y) and a step h the crossings of the piecewise-linear
interpolant with the levels k*h are, for each consecutive pair of
samples, all integers k with  lower <= k*h < upper  (lower value
included, upper value excluded), listed in travel direction.
"""

import math
from fractions import Fraction as F


def ceil_frac(q):
    return -((-q.numerator) // q.denominator)


def pair_levels(ya, yb, h):
    """Levels crossed between two consecutive samples, travel order."""
    Ya, Yb = F(ya) / F(h), F(yb) / F(h)
    ca, cb = ceil_frac(Ya), ceil_frac(Yb)
    if cb > ca:
        return list(range(ca, cb))
    return list(reversed(range(cb, ca)))


def levels_from_ceils(ceils):
    seq = []
    for ca, cb in zip(ceils[:-1], ceils[1:]):
        if cb > ca:
            seq.extend(range(ca, cb))
        else:
            seq.extend(reversed(range(cb, ca)))
    return seq


def crossings(x, y, h):
    """[(k, x_cross as Fraction, pair index)] in reporting order."""
    out = []
    h = F(h)
    for i in range(len(x) - 1):
        xa, xb, ya, yb = F(x[i]), F(x[i + 1]), F(y[i]), F(y[i + 1])
        for k in pair_levels(ya, yb, h):
            xc = xa + (k * h - ya) / (yb - ya) * (xb - xa)
            out.append((k, xc, i))
    return out


def mean_crossings(x, y, h):
    """{k: mean crossing abscissa (Fraction)} for one series."""
    acc = {}
    for k, xc, _ in crossings(x, y, h):
        acc.setdefault(k, []).append(xc)
    return {k: sum(v) / len(v) for k, v in acc.items()}


def ambiguous_ceils(y, h, ulps=2):
    """Per sample, the admissible values of ceil(float(y/h)).

    The code under test takes the ceiling of the *rounded* quotient.  The
    rounded quotient is within half an ulp of the exact one, so the only
    inputs on which it can differ from the exact ceiling are quotients
    lying a hair *above* an integer m (rounded down onto m: ceiling m
    instead of m+1).  Both readings are accepted there (a sample within
    an ulp of a level is 'on' or 'just above' it); everywhere else the
    exact ceiling is required.
    """
    options = []
    for yi in y:
        q = F(yi) / F(h)
        c = ceil_frac(q)
        scale = max(abs(float(q)), 2.0 ** -1000)
        tol = F(ulps * math.ulp(scale))
        if q != c and q - (c - 1) <= tol:
            options.append([c - 1, c])
        else:
            options.append([c])
    return options


def rounded_ceils(y, h):
    """ceil of the correctly rounded double quotient y/h (one of the two
    admissible readings at an ambiguous sample; IEEE division is correctly
    rounded, so this is plain float arithmetic, not the code under test)."""
    return [math.ceil(float(v) / float(h)) for v in y]


def has_ambiguous_sample(y, h):
    return any(len(o) > 1 for o in ambiguous_ceils(y, h))


def crossings_from_ceils(x, y, h, ceils):
    """Like crossings(), but with the per-sample ceilings given."""
    out = []
    hF = F(h)
    for i in range(len(x) - 1):
        ca, cb = ceils[i], ceils[i + 1]
        if cb > ca:
            ks = range(ca, cb)
        else:
            ks = reversed(range(cb, ca))
        xa, xb, ya, yb = F(x[i]), F(x[i + 1]), F(y[i]), F(y[i + 1])
        for k in ks:
            if yb == ya:
                continue
            xc = xa + (k * hF - ya) / (yb - ya) * (xb - xa)
            # an ambiguous sample sits within an ulp of the level: clamp
            xc = min(max(xc, xa), xb)
            out.append((k, xc, i))
    return out


def mean_crossings_rounded(x, y, h):
    """{k: mean crossing} under the rounded-quotient reading."""
    acc = {}
    for k, xc, _ in crossings_from_ceils(x, y, h, rounded_ceils(y, h)):
        acc.setdefault(k, []).append(xc)
    return {k: sum(v) / len(v) for k, v in acc.items()}
