"""Logical dump of a dataset file (DESIGN 3.5).

sqlite_master (table / view SQL) plus, for every table, all rows as a
sorted list -- independent of rowids and insertion order; floats are
compared bit for bit unless a tolerance is asked for.
"""

import math


def table_names(connection):
    return [name for (name,) in connection.execute(
        "SELECT name FROM sqlite_master WHERE type='table' ORDER BY name")]


def columns(connection, table):
    return [row[1] for row in connection.execute(
        'PRAGMA table_info("{}")'.format(table))]


def _key(row):
    return tuple((0, '') if v is None else (1, v) if isinstance(
        v, (int, float)) else (2, str(v)) for v in row)


def dump(connection, shift=0, skip_columns=()):
    """{'schema': [...], 'tables': {name: {'columns': [...], 'rows': [...]}}}

    shift is subtracted from every column whose name contains 'epoch'."""
    schema = sorted(
        (kind, name, sql) for kind, name, sql in connection.execute(
            "SELECT type, name, sql FROM sqlite_master "
            "WHERE name NOT LIKE 'sqlite_%'"))
    tables = {}
    for table in table_names(connection):
        cols = columns(connection, table)
        rows = connection.execute(
            'SELECT * FROM "{}"'.format(table)).fetchall()
        out = []
        for row in rows:
            new = []
            for col, value in zip(cols, row):
                if (table, col) in skip_columns:
                    continue
                if 'epoch' in col and isinstance(value, (int, float)):
                    value = value - shift
                new.append(value)
            out.append(tuple(new))
        tables[table] = {
            'columns': [c for c in cols if (table, c) not in skip_columns],
            'rows': sorted(out, key=_key),
        }
    return {'schema': schema, 'tables': tables}


def diff(a, b, rel=0.0, float_tables=()):
    """First difference between two dumps as text, or None.

    rel: relative tolerance applied to float values of float_tables only;
    everything else must be identical."""
    if a['schema'] != b['schema']:
        return 'schema differs'
    if set(a['tables']) != set(b['tables']):
        return 'table sets differ'
    for name in sorted(a['tables']):
        ra, rb = a['tables'][name]['rows'], b['tables'][name]['rows']
        if len(ra) != len(rb):
            return 'table {}: {} rows vs {} rows'.format(
                name, len(ra), len(rb))
        for x, y in zip(ra, rb):
            if x == y:
                continue
            if name in float_tables and rel and len(x) == len(y) and all(
                    _close(u, v, rel) for u, v in zip(x, y)):
                continue
            return 'table {}: row {} vs {}'.format(name, x, y)
    return None


def _close(u, v, rel):
    if isinstance(u, float) or isinstance(v, float):
        if u is None or v is None:
            return u is v
        return math.isclose(u, v, rel_tol=rel, abs_tol=rel)
    return u == v
