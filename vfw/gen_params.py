"""Strategies for hydraulic parameter sets (plain JSON-able dicts)."""

from hypothesis import strategies as st

PUBLISHED_PEATCLSM_SY = {
    'sd': 0.162, 'theta_s': 0.88, 'b': 7.4, 'psi_s': -0.024}
PUBLISHED_PEATCLSM_T = {'Ksmacz0': 7.3, 'alpha': 3.0, 'zeta_max_cm': 5.0}


def rounded(value, digits=6):
    return float(round(value, digits))


@st.composite
def knot_levels(draw, min_n=4, max_n=10, min_gap=0.5, max_gap=800.0,
                lo=-1200.0, hi=300.0):
    n = draw(st.integers(min_n, max_n))
    z0 = draw(st.one_of(
        st.sampled_from([-291.7, -1000.0, -100.0, 0.0]),
        st.floats(lo, hi).map(lambda v: rounded(v, 3))))
    gap_kind = draw(st.sampled_from(['even', 'mixed', 'mixed', 'tight']))
    z = [z0]
    for _ in range(n - 1):
        if gap_kind == 'even':
            gap = 100.0
        elif gap_kind == 'tight':
            gap = draw(st.floats(min_gap, min(5 * min_gap + 5.0, max_gap)))
        else:
            gap = draw(st.one_of(
                st.floats(min_gap, max_gap),
                st.sampled_from([min_gap, 1.0, 10.0, 26.39, 167.36])))
        nxt = rounded(z[-1] + gap, 4)
        if nxt - z[-1] < min_gap:
            nxt = z[-1] + min_gap
        z.append(nxt)
    return z


@st.composite
def spline_sy(draw, min_gap=0.5, positive=False):
    z = draw(knot_levels(min_gap=min_gap))
    lo_v = 0.01 if positive else 0.0
    shape = draw(st.sampled_from(['free', 'free', 'constant', 'monotone']))
    if shape == 'constant':
        v = [draw(st.floats(max(lo_v, 0.05), 1.0).map(rounded))] * len(z)
    elif shape == 'monotone':
        vals = sorted(draw(st.lists(
            st.floats(max(lo_v, 0.02), 1.2), min_size=len(z),
            max_size=len(z))))
        v = [rounded(x) for x in vals]
    else:
        v = [draw(st.floats(lo_v, 1.5).map(rounded)) for _ in z]
    return {'type': 'spline', 'zeta_knots_mm': z, 'sy_knots': v}


@st.composite
def spline_T(draw, min_gap=0.5, min_n=2, max_n=8, z_lo=None):
    z = draw(knot_levels(min_n=min_n, max_n=max_n, min_gap=min_gap))
    if z_lo is not None:
        shift = z_lo - z[0]
        z = [rounded(v + shift, 4) for v in z]
    lo_k = draw(st.sampled_from([-5.0, -5.0, -13.0]))
    logk = [draw(st.floats(lo_k, 4.0 if lo_k > -6 else -6.0))
            for _ in z]
    same = draw(st.booleans())
    if same and len(z) > 2:
        logk[1] = logk[0]  # a segment of constant conductivity (slope 0)
    K = [float('{:.6g}'.format(10.0 ** e)) for e in logk]
    tmin = float('{:.6g}'.format(10.0 ** draw(
        st.floats(-3.0, 2.0) if lo_k > -6 else st.floats(-12.0, -6.0))))
    typing = draw(st.sampled_from(['float', 'float', 'int-min', 'int-all']))
    if typing != 'float':
        # a parameter file may spell whole numbers without a decimal point
        # (YAML then yields Python ints)
        tmin = draw(st.integers(1, 100))
    if typing == 'int-all':
        K = [max(1, int(round(k))) for k in K]
        z = [int(round(v)) for v in z]
        z = [v + i for i, v in enumerate(z)]  # keep strictly increasing
    return {'type': 'spline', 'zeta_knots_mm': z, 'K_knots_km_d': K,
            'minimum_transmissivity_m2_d': tmin}


@st.composite
def peatclsm_sy(draw):
    if draw(st.integers(0, 5)) == 0:
        return dict(PUBLISHED_PEATCLSM_SY, type='peatclsm')
    if draw(st.integers(0, 5)) == 0:
        # whole numbers spelled without a decimal point (YAML ints); 1 is
        # the upper calibration bound of theta_s, 2 that of sd
        return {
            'type': 'peatclsm',
            'sd': draw(st.sampled_from([1, 2, 0.5])),
            'theta_s': 1,
            'b': draw(st.integers(1, 20)),
            'psi_s': draw(st.sampled_from([-1, -0.1])),
        }
    return {
        'type': 'peatclsm',
        'sd': draw(st.one_of(st.floats(0.02, 2.0), st.floats(0.0005, 0.02),
                             st.sampled_from([0.001, 0.004, 0.005, 0.01]))
                   .map(rounded)),
        'theta_s': draw(st.floats(0.01, 1.0).map(rounded)),
        'b': draw(st.one_of(st.floats(0.01, 1.0), st.floats(1.0, 20.0))
                  .map(rounded)),
        'psi_s': draw(st.floats(-1.0, -0.01).map(rounded)),
    }


@st.composite
def peatclsm_T(draw):
    if draw(st.integers(0, 5)) == 0:
        return dict(PUBLISHED_PEATCLSM_T, type='peatclsm')
    return {
        'type': 'peatclsm',
        'Ksmacz0': float('{:.6g}'.format(10.0 ** draw(st.floats(-4.0, 5.0)))),
        'alpha': draw(st.one_of(
            st.floats(1.01, 3.0), st.floats(3.0, 20.0)).map(rounded)),
        'zeta_max_cm': draw(st.floats(-50.0, 50.0).map(
            lambda v: rounded(v, 2))),
    }
