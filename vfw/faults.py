"""Fault and kill injection without touching the repository (DESIGN 3.6).

spowtd.user_interface obtains its connections from sqlite3.connect(path).
The harness replaces the `sqlite3` name in that module's namespace, in its
own process, by a proxy whose connect() builds connections with a
subclass that counts every execute / executemany / executescript and, at
the k-th statement, raises an injected OperationalError (fault) or
snapshots the database file with its journal (simulated kill: exactly the
bytes a `kill -9` at that instant would leave to the next opener).
"""

import contextlib
import os
import shutil
import sqlite3

from vfw import tree

WRITE_WORDS = ('INSERT', 'UPDATE', 'DELETE', 'REPLACE', 'CREATE', 'DROP',
               'ALTER')


class InjectedFault(sqlite3.OperationalError):
    """The error the harness injects at the chosen statement."""


class InjectedRuntimeError(RuntimeError):
    """A failure that is not a database error (a bug, a full disk seen by
    Python, an assertion): the step 'fails' all the same."""


class SimulatedKill(BaseException):
    """Unwinds the step after the snapshot was taken (the snapshot, not
    the unwound process, is the state under test)."""


class Plan:
    """What to do at which statement; also the log of what happened."""

    def __init__(self, mode='count', k=None, snapshot_dir=None,
                 exception='sqlite'):
        self.mode = mode          # 'count' | 'fault' | 'kill'
        self.exception = exception  # 'sqlite' | 'runtime' | 'interrupt'
        self.k = k
        self.snapshot_dir = snapshot_dir
        self.count = 0
        self.first_write = None
        self.fired = False
        self.commits = 0
        self.db_path = None
        self.muted = False

    def statement(self, sql):
        if self.muted:
            return
        self.count += 1
        head = sql.lstrip().split(None, 1)[0].upper() if sql.strip() else ''
        if self.first_write is None and head in WRITE_WORDS:
            self.first_write = self.count
        if self.k is not None and self.count == self.k and not self.fired:
            self.fired = True
            if self.mode == 'fault':
                message = 'injected fault at statement {}'.format(self.k)
                if self.exception == 'runtime':
                    raise InjectedRuntimeError(message)
                if self.exception == 'interrupt':
                    raise KeyboardInterrupt(message)
                raise InjectedFault(message)
            if self.mode == 'kill':
                snapshot(self.db_path, self.snapshot_dir)
                raise SimulatedKill()


def snapshot(db_path, target_dir):
    """Copy the database file and its sidecars as they are on disk now."""
    os.makedirs(target_dir, exist_ok=True)
    for suffix in ('', '-journal', '-wal', '-shm'):
        src = db_path + suffix
        if os.path.exists(src):
            shutil.copyfile(src, os.path.join(
                target_dir, os.path.basename(db_path) + suffix))


def make_connection_class(plan):
    class Cursor(sqlite3.Cursor):
        def execute(self, sql, *args):
            plan.statement(sql)
            return super().execute(sql, *args)

        def executemany(self, sql, *args):
            plan.statement(sql)
            return super().executemany(sql, *args)

        def executescript(self, sql):
            plan.statement(sql)
            return super().executescript(sql)

    class Connection(sqlite3.Connection):
        def cursor(self, factory=None):
            return super().cursor(factory or Cursor)

        def execute(self, sql, *args):
            return self.cursor().execute(sql, *args)

        def executemany(self, sql, *args):
            return self.cursor().executemany(sql, *args)

        def executescript(self, sql):
            return self.cursor().executescript(sql)

        def commit(self):
            super().commit()
            plan.commits += 1

    return Connection


class Sqlite3Proxy:
    """Stands in for the sqlite3 module inside spowtd.user_interface."""

    def __init__(self, plan):
        self._plan = plan

    def __getattr__(self, name):
        return getattr(sqlite3, name)

    def connect(self, path, *args, **kwargs):
        self._plan.db_path = path
        kwargs['factory'] = make_connection_class(self._plan)
        connection = sqlite3.connect(path, *args, **kwargs)
        # one-page cache: dirty pages spill into the file in the middle of
        # the transaction, so a snapshot really holds uncommitted pages and
        # recovery has work to do
        self._plan.muted = True
        try:
            sqlite3.Connection.execute(connection, 'PRAGMA cache_size=1')
        finally:
            self._plan.muted = False
        return connection


@contextlib.contextmanager
def injected(plan):
    ui = tree.mod('user_interface')
    original = ui.sqlite3
    ui.sqlite3 = Sqlite3Proxy(plan)
    try:
        yield plan
    finally:
        ui.sqlite3 = original
