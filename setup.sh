#!/bin/sh
# Offline setup: hypothesis into /venv (idempotent), atheris into /verif/.deps
here=$(cd "$(dirname "$0")" && pwd)
/venv/bin/python -c 'import hypothesis' 2>/dev/null || \
  /venv/bin/pip install --no-index --find-links /opt/veriftools/wheels hypothesis || exit 1
if [ ! -d "$here/.deps/atheris" ]; then
  /venv/bin/pip install --no-index --find-links /opt/veriftools/wheels \
    --target "$here/.deps" atheris >/dev/null 2>&1 || echo "atheris unavailable: fuzz parts will be skipped"
fi
exit 0
