#!/bin/sh
# Run every registered quick check against every kept seeded change, the way the brief describes:
# apply the patch to /repo's working tree, run the check of the property it breaks, undo straight afterwards.
# Writes seeded/RESULTS.md.  Refuses to start if /repo has uncommitted changes.
# SCRATCH=1: the same matrix on a scratch git worktree of /repo HEAD (under /tmp, removed at the end) through
# SPOWTD_REPO, so that /repo stays clean and other checks can run meanwhile; ONLY="C05 C19": those properties only.
here=$(cd "$(dirname "$0")/.." && pwd)
if [ -n "$(git -C /repo status --porcelain)" ]; then echo "/repo is not clean"; exit 2; fi
tree=/repo
if [ -n "$SCRATCH" ]; then
  tree=$(mktemp -d /tmp/seedmatrix-XXXXXX); rmdir "$tree"
  git -C /repo worktree add -q --detach "$tree" HEAD || exit 3
  export SPOWTD_REPO="$tree" VERIF_SCRATCH_OUT=/dev/shm/seedmatrix-out-$$
fi
out="${OUT:-$here/seeded/RESULTS.md}"
{
echo "# Seeded changes against the registered quick checks"
echo
echo "Each patch was applied to $([ -n "$SCRATCH" ] && echo 'a scratch git worktree of /repo HEAD' || echo /repo) (git apply), the quick check of the property it breaks was run once per seed in VERIF_SEED = ${SEEDS:-1} (exit status per seed: 1 = VIOLATION reported), and /repo was restored (git checkout -- .). Evidence files are restored from git afterwards, so committed evidence always comes from the unchanged tree."
echo
echo "| seeded change | exit per seed | first violation line |"
echo "|---|---|---|"
} > "$out"
status=0
for meta in "$here"/seeded/C*/*/meta.json; do
  dir=$(dirname "$meta"); name=$(basename "$dir"); pid=$(basename "$(dirname "$dir")")
  if [ -n "$ONLY" ]; then case " $ONLY " in *" $pid "*) ;; *) continue;; esac; fi
  git -C "$tree" apply "$dir/patch.diff" || { echo "| $pid/$name | patch does not apply | |" >> "$out"; continue; }
  log=$(mktemp); rcs=""; first=""
  for seed in ${SEEDS:-1}; do
    VERIF_SEED=$seed "$here/check" "$pid" --tier quick --no-evidence > "$log" 2>&1; rc=$?
    rcs="$rcs$rc "
    [ -n "$first" ] || first=$(grep -m1 '^violation' "$log" | cut -c1-110)
    [ "$rc" = 1 ] || status=1
  done
  git -C "$tree" checkout -- .
  echo "| $pid/$name | $rcs| $first |" >> "$out"
  rm -f "$log"
done
# remove counter-examples produced against the changed trees (they are not regressions of the real tree)
[ -n "$SCRATCH" ] || git -C "$here" status --porcelain replays | awk '$1=="??"{print $2}' | while read f; do rm -rf "$here/$f"; done
if [ -n "$SCRATCH" ]; then git -C /repo worktree remove --force "$tree"; git -C /repo worktree prune; rm -rf /dev/shm/seedmatrix-out-$$; fi
echo >> "$out"; echo "All caught: $([ $status = 0 ] && echo yes || echo NO)" >> "$out"
cat "$out"
exit $status
