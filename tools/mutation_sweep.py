#!/venv/bin/python
"""Systematic sensitivity sweep: single-node AST mutants of the package,
each run against the quick checks of the properties anchored in that file.

    tools/mutation_sweep.py [--files classify.py,regrid.py] [--jobs 4]
                            [--limit N] [--out seeded/MUTATION_SWEEP.md]

Mutants are written to scratch copies outside /repo and /verif and removed.
A mutant is *killed* when one of the mapped checks exits 1 with a VIOLATION
line, *survives* when all exit 0.  Survivors are listed for triage
(equivalent mutant / outside every listed property / gap in a check).
This does not filter by the repository suite (most mutants of this kind
keep it green because it asserts so little; those it would catch are still
fair game for the checks).
"""

import argparse
import ast
import concurrent.futures
import copy
import os
import shutil
import subprocess
import sys
import tempfile

HERE = os.path.dirname(os.path.dirname(os.path.abspath(__file__)))
REPO = '/repo'

CHECKS = {
    'classify.py': ['C03', 'C04', 'C01', 'C02', 'C07'],
    'load.py': ['C10', 'C11'],
    'regrid.py': ['C12', 'C06'],
    'fit_offsets.py': ['C05', 'C08', 'C12', 'C13'],
    'rise.py': ['C13', 'C09', 'C06'],
    'recession.py': ['C13', 'C09', 'C06'],
    'zeta_grid.py': ['C13'],
    'spline.py': ['C14', 'C17', 'C15'],
    'specific_yield.py': ['C16', 'C14'],
    'transmissivity.py': ['C15', 'C16', 'C18'],
    'simulate_rise.py': ['C17', 'C19'],
    'simulate_recession.py': ['C18', 'C19'],
    'pestfiles.py': ['C19'],
    'set_curvature.py': ['C20', 'C18'],
}

CMP = {ast.Lt: ast.LtE, ast.LtE: ast.Lt, ast.Gt: ast.GtE, ast.GtE: ast.Gt,
       ast.Eq: ast.NotEq, ast.NotEq: ast.Eq}
BIN = {ast.Add: ast.Sub, ast.Sub: ast.Add, ast.Mult: ast.Div,
       ast.Div: ast.Mult}
BOOL = {ast.And: ast.Or, ast.Or: ast.And}


def mutants(source):
    """Yield (description, mutated source)."""
    tree = ast.parse(source)
    nodes = list(ast.walk(tree))
    for index, node in enumerate(nodes):
        variants = []
        if isinstance(node, ast.Compare) and len(node.ops) == 1:
            op = type(node.ops[0])
            if op in CMP:
                variants.append(('cmp {} -> {}'.format(
                    op.__name__, CMP[op].__name__),
                    lambda n, o=CMP[op]: setattr(n, 'ops', [o()])))
        elif isinstance(node, ast.BinOp) and type(node.op) in BIN:
            op = type(node.op)
            variants.append(('binop {} -> {}'.format(
                op.__name__, BIN[op].__name__),
                lambda n, o=BIN[op]: setattr(n, 'op', o())))
        elif isinstance(node, ast.BoolOp) and type(node.op) in BOOL:
            op = type(node.op)
            variants.append(('boolop {} -> {}'.format(
                op.__name__, BOOL[op].__name__),
                lambda n, o=BOOL[op]: setattr(n, 'op', o())))
        elif isinstance(node, ast.UnaryOp) and isinstance(node.op, ast.Not):
            variants.append(('drop not', None))
        elif isinstance(node, ast.Constant) and isinstance(
                node.value, int) and not isinstance(node.value, bool):
            for delta in (1, -1):
                variants.append(('const {} -> {}'.format(
                    node.value, node.value + delta),
                    lambda n, d=delta: setattr(n, 'value', n.value + d)))
        elif isinstance(node, ast.Constant) and isinstance(node.value, bool):
            variants.append(('const {} -> {}'.format(
                node.value, not node.value),
                lambda n: setattr(n, 'value', not n.value)))
        for description, change in variants:
            clone = copy.deepcopy(tree)
            target = list(ast.walk(clone))[index]
            if description == 'drop not':
                # replace the UnaryOp by its operand in the parent
                replaced = False
                for parent in ast.walk(clone):
                    for field, value in ast.iter_fields(parent):
                        if value is target:
                            setattr(parent, field, target.operand)
                            replaced = True
                        elif isinstance(value, list) and target in value:
                            value[value.index(target)] = target.operand
                            replaced = True
                if not replaced:
                    continue
            else:
                change(target)
            if isinstance(node, ast.Constant) and _in_docstring_or_assert_msg(
                    tree, node):
                continue
            try:
                text = ast.unparse(clone)
            except Exception:  # pylint: disable=broad-except
                continue
            line = getattr(node, 'lineno', 0)
            yield ('line {}: {}'.format(line, description), text)


def _in_docstring_or_assert_msg(tree, node):
    for parent in ast.walk(tree):
        if isinstance(parent, ast.Assert) and parent.msg is not None:
            if node in list(ast.walk(parent.msg)):
                return True
    return False


def run_mutant(args):
    filename, description, text, checks = args
    scratch = tempfile.mkdtemp(prefix='spowtd-mut-', dir='/dev/shm')
    try:
        shutil.copytree(os.path.join(REPO, 'spowtd'),
                        os.path.join(scratch, 'spowtd'),
                        ignore=shutil.ignore_patterns('__pycache__', 'test'))
        os.makedirs(os.path.join(scratch, 'spowtd', 'test'), exist_ok=True)
        with open(os.path.join(scratch, 'spowtd', filename), 'w') as f:
            f.write(text)
        try:
            compile(text, filename, 'exec')
        except SyntaxError:
            return (filename, description, 'invalid', '')
        env = dict(os.environ, SPOWTD_REPO=scratch,
                   VERIF_SCRATCH_OUT=os.path.join(scratch, 'out'),
                   VERIF_CORES='4', VERIF_SEED='1')
        for pid in checks:
            proc = subprocess.run(
                [os.path.join(HERE, 'check'), pid, '--tier', 'quick',
                 '--no-evidence'], capture_output=True, text=True, env=env,
                timeout=1800)
            if proc.returncode == 1:
                first = next((line for line in proc.stdout.splitlines()
                              if line.startswith('violation')), '')
                return (filename, description, 'killed',
                        '{}: {}'.format(pid, first[:100]))
            if proc.returncode != 0:
                first = next((line for line in proc.stdout.splitlines()
                              if 'HARNESS' in line), proc.stderr[-200:])
                return (filename, description, 'harness-error',
                        '{}: {}'.format(pid, first[:160]))
        return (filename, description, 'survived', ','.join(checks))
    except subprocess.TimeoutExpired:
        return (filename, description, 'timeout', '')
    finally:
        shutil.rmtree(scratch, ignore_errors=True)


def main():
    parser = argparse.ArgumentParser()
    parser.add_argument('--files', default=','.join(CHECKS))
    parser.add_argument('--jobs', type=int, default=4)
    parser.add_argument('--limit', type=int, default=0)
    parser.add_argument('--out', default=os.path.join(
        HERE, 'seeded', 'MUTATION_SWEEP.md'))
    args = parser.parse_args()
    tasks = []
    for filename in args.files.split(','):
        with open(os.path.join(REPO, 'spowtd', filename)) as f:
            source = f.read()
        seen = set()
        for description, text in mutants(source):
            if text in seen:
                continue
            seen.add(text)
            tasks.append((filename, description, text, CHECKS[filename]))
    if args.limit:
        tasks = tasks[::max(1, len(tasks) // args.limit)][:args.limit]
    print('{} mutants'.format(len(tasks)), flush=True)
    results = []
    with concurrent.futures.ThreadPoolExecutor(args.jobs) as pool:
        for result in pool.map(run_mutant, tasks):
            results.append(result)
            print(' | '.join(result), flush=True)
    counts = {}
    for _, _, status, _ in results:
        counts[status] = counts.get(status, 0) + 1
    with open(args.out, 'w') as f:
        f.write('# Single-node AST mutants against the quick checks\n\n')
        f.write('Written by tools/mutation_sweep.py (VERIF_SEED=1, quick '
                'tier). Totals: {}\n\n'.format(
                    ', '.join('{} {}'.format(v, k)
                              for k, v in sorted(counts.items()))))
        f.write('| file | mutant | outcome | by / checks run |\n|---|---|---|---|\n')
        for filename, description, status, info in results:
            f.write('| {} | {} | {} | {} |\n'.format(
                filename, description, status, info.replace('|', '/')))
    print(counts)


if __name__ == '__main__':
    main()
