#!/bin/sh
# Sensitivity trial:  tools/mutate.sh <ID> <file under spowtd/> <sed expression> [check args...]
# Copies the repository's package to a scratch directory outside /repo and
# /verif, applies the edit there, runs the check against it and removes it.
id=$1; file=$2; expr=$3; shift 3
scratch=$(mktemp -d /dev/shm/spowtd-mut-XXXXXX)
cp -r /repo/spowtd "$scratch/spowtd"
rm -rf "$scratch/spowtd/__pycache__"
before=$(md5sum "$scratch/spowtd/$file")
sed -i "$expr" "$scratch/spowtd/$file"
after=$(md5sum "$scratch/spowtd/$file")
if [ "$before" = "$after" ]; then echo "MUTATION DID NOT APPLY"; rm -rf "$scratch"; exit 3; fi
diff -u "/repo/spowtd/$file" "$scratch/spowtd/$file" | head -20
SPOWTD_REPO=$scratch VERIF_SCRATCH_OUT=$scratch/out "$(dirname "$0")/../check" "$id" "$@" | tail -6
status=$?
rm -rf "$scratch"
exit $status
