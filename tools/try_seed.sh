#!/bin/sh
# Confirm an independently written breaking change and run our check against it.
#   tools/try_seed.sh <ID> <dir with patch.diff and demo.py> [check args...]
# Everything happens in a scratch git worktree outside /repo and /verif, removed at the end.
id=$1; src=$2; shift 2
here=$(cd "$(dirname "$0")/.." && pwd)
wt=$(mktemp -d /tmp/seedcheck-XXXXXX); rmdir "$wt"
git -C /repo worktree add -q --detach "$wt" HEAD || exit 3
cp "$src/demo.py" "$wt/.seed_demo.py"
( cd "$wt" && /venv/bin/python .seed_demo.py >/dev/null 2>&1 ); d0=$?
( cd "$wt" && git apply "$src/patch.diff" ) || { echo "PATCH DOES NOT APPLY"; git -C /repo worktree remove --force "$wt"; exit 3; }
( cd "$wt" && /venv/bin/python .seed_demo.py >/dev/null 2>&1 ); d1=$?
echo "demo: original exit=$d0 changed exit=$d1"
if [ -z "$SKIP_TESTS" ]; then
  ( cd "$wt" && /venv/bin/python -m pytest -q -p no:cacheprovider --timeout=900 --junitxml="$wt/.junit.xml" >/dev/null 2>&1
    /venv/bin/python - "$wt/.junit.xml" <<'PY'
import json, sys, xml.etree.ElementTree as ET
base = set(json.load(open('/root/.vp/BASELINE.json'))['stable_pass'])
passed = set()
for tc in ET.parse(sys.argv[1]).getroot().iter('testcase'):
    if not any(c.tag in ('failure', 'error', 'skipped') for c in tc):
        passed.add('{}::{}'.format(tc.get('classname'), tc.get('name')))
print('suite with change: baseline {}/{} pass, {} pass in all'.format(len(base & passed), len(base), len(passed)))
PY
  )
fi
SPOWTD_REPO="$wt" VERIF_SCRATCH_OUT="$wt/.out" "$here/check" "$id" "$@" | grep -E "^violation|^VIOLATION|tier=|KNOWN" | head -8
[ -d "$wt/.out" ] && mkdir -p /dev/shm/seed-replays/$id && cp -r "$wt/.out/replays/$id/." /dev/shm/seed-replays/$id/ 2>/dev/null
git -C /repo worktree remove --force "$wt"; git -C /repo worktree prune
