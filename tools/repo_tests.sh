#!/bin/sh
# Run the repository's suite (guard off; there are no hooks) and compare with the stable baseline of 33 tests.
out=${1:-/dev/shm/repo-tests.xml}
cd /repo && /venv/bin/python -m pytest -ra -q -p no:cacheprovider --timeout=900 --continue-on-collection-errors --junitxml="$out" >/dev/shm/repo-tests.log 2>&1
/venv/bin/python - "$out" <<'PY'
import json, sys, xml.etree.ElementTree as ET
base = set(json.load(open('/root/.vp/BASELINE.json'))['stable_pass'])
passed = set()
for tc in ET.parse(sys.argv[1]).getroot().iter('testcase'):
    if not any(c.tag in ('failure', 'error', 'skipped') for c in tc):
        passed.add('{}::{}'.format(tc.get('classname'), tc.get('name')))
missing = sorted(base - passed)
print('baseline stable tests passing: {}/{}; extra passing: {}'.format(len(base & passed), len(base), len(passed - base)))
for m in missing: print('MISSING', m[:120])
sys.exit(1 if missing else 0)
PY
