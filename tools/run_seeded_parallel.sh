#!/bin/sh
# The matrix of tools/run_seeded.sh in four groups side by side, each on its own scratch git worktree of /repo HEAD
# (SCRATCH=1), merged into seeded/RESULTS.md.   SEEDS="1 2 3" tools/run_seeded_parallel.sh
here=$(cd "$(dirname "$0")/.." && pwd)
tmp=$(mktemp -d /dev/shm/matrix-XXXXXX)
n=0
for group in "C01 C02 C03 C04 C05" "C06 C07 C08 C09 C10" "C11 C12 C13 C14 C15" "C16 C17 C18 C19 C20"; do
  n=$((n+1))
  SCRATCH=1 ONLY="$group" OUT="$tmp/g$n.md" VERIF_CORES=${VERIF_CORES:-4} "$here/tools/run_seeded.sh" > "$tmp/g$n.log" 2>&1 &
done
wait
out="$here/seeded/RESULTS.md"
{
  sed -n '1,6p' "$tmp/g1.md"
  cat "$tmp"/g*.md | grep '^| C' | sort
  echo
  if cat "$tmp"/g*.md | grep '^| C' | grep -vqE '^\| [^|]* \| (1 )+\|'; then echo "All caught: NO"; else echo "All caught: yes"; fi
} > "$out"
rm -rf "$tmp"
tail -3 "$out"
