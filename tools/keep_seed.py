#!/usr/bin/env python3
"""Keep a confirmed seeded change:  tools/keep_seed.py <ID> <src dir> <name> <json meta fields>"""
import json, os, shutil, sys
pid, src, name, extra = sys.argv[1], sys.argv[2], sys.argv[3], json.loads(sys.argv[4])
here = os.path.dirname(os.path.dirname(os.path.abspath(__file__)))
dst = os.path.join(here, 'seeded', pid, name)
os.makedirs(dst, exist_ok=True)
shutil.copyfile(os.path.join(src, 'patch.diff'), os.path.join(dst, 'patch.diff'))
shutil.copyfile(os.path.join(src, 'demo.py'), os.path.join(dst, 'demo.py'))
if os.path.exists(os.path.join(src, 'notes.md')):
    shutil.copyfile(os.path.join(src, 'notes.md'), os.path.join(dst, 'author_notes.md'))
meta = {'property': pid, 'name': name}
meta.update(extra)
json.dump(meta, open(os.path.join(dst, 'meta.json'), 'w'), indent=1)
print('kept', dst)
