#!/usr/bin/env python3
"""Regenerate MANIFEST.json from tools/manifest_table.json (claimed checks)
and properties.jsonl (everything else goes to not_applicable with the
reason given in the table)."""
import json, os
here = os.path.dirname(os.path.dirname(os.path.abspath(__file__)))
table = json.load(open(os.path.join(here, 'tools', 'manifest_table.json')))
ids = [json.loads(l)['id'] for l in open(os.path.join(here, 'properties.jsonl'))]
checks, na = [], []
for pid in ids:
    e = table['checks'].get(pid)
    if e is None:
        na.append({'property_id': pid, 'reason': table['not_applicable'].get(
            pid, 'check not built yet in this revision of /verif (planned, see DESIGN.md section 4)')})
        continue
    checks.append({
        'property_id': pid,
        'quick_cmd': './check {} --tier quick'.format(pid),
        'thorough_cmd': './check {} --tier thorough'.format(pid),
        'evidence_file': 'evidence/{}.json'.format(pid),
        'replay_cmd_template': './check {} --replay {{path}}'.format(pid),
        'engine': 'vfw',
        'level_claimed': {'category': e.get('category', 'exploration'),
                          'text': e['text'], 'design_ref': e['design_ref']},
        'level_note': e['note'],
        'technique': e['technique'],
    })
manifest = {
    'version': 1,
    'setup_cmd': 'sh ./setup.sh',
    'hooks': table['hooks'],
    'engines': [{'name': 'vfw', 'path': 'vfw/', 'serves_properties': [c['property_id'] for c in checks],
                 'kind_free_text': 'Hypothesis-driven generated search (sharded over processes) against reference models, closed forms, metamorphic relations and history invariants; exhaustive enumeration of small finite sub-domains; atheris campaigns over the same strategies'}],
    'checks': checks,
    'notes': table['notes'],
    'not_applicable': na,
}
json.dump(manifest, open(os.path.join(here, 'MANIFEST.json'), 'w'), indent=1)
print('claimed', len(checks), 'not_applicable', len(na))
